"""C14 — assignment qualifiers decide the vote and the write per the documented table.

One exhaustive decision table: Equality._do_assignment_new_impl (with _latch_and_onchange, _set_variable_if and
_test_friendly_line_matches inlined) is interpreted for all 256 qualifier subsets x current value {None,1,2,3} x
new value {None,1,2,3,'true','false'} x {rest of line matches, does not} x {AND, OR}, and the observed
(write?, vote) is compared with docs/assignment.md as frozen in spec() below.
  R1 table            the table itself
  R2 wiring           _do_assignment passes each qualifier of the left-hand variable under its own name, the right
                      side's value as new value and the variable's current (tracked) value
  R3 look-ahead       Qualified.line_matches: negative on the first non-matching expression, match count raised only
                      on the all-positive path, memo votes written consistently
  R4 asbool           ExpressionUtility.asbool value table
  R5 dispatch         Equality.matches: assignment iff left is a Variable and op '=', '->' → when/do, else equality
"""
import ast
import itertools

from sa.index import AnalysisError, unparse, walk_no_nested, call_name
from sa.absint import Interp, Obj, Residual
from . import common as K

QUALS = ["onmatch", "latch", "onchange", "notnone", "increase", "decrease", "asbool", "nocontrib"]


def spec(q, cur, new, line_matches, dm):
    """(writes, vote) per docs/assignment.md / the property statement; vote 'ASBOOL' = truth of y"""
    pos, neg = dm, (not dm)
    write = False
    vote = pos
    if q["onmatch"] and not line_matches:
        vote = neg
    else:
        proceed = True
        if q["latch"] or q["onchange"]:
            if cur != new:
                if cur is None or not q["latch"]:
                    proceed = True
                else:
                    proceed = False  # latch blocks the write but never votes negative
            else:
                proceed = False
                if q["onchange"]:
                    vote = neg
        if proceed:
            if q["notnone"] and new is None:
                vote = neg
            elif q["increase"] and (new is None or (cur is not None and cur >= new)):
                vote = neg
            elif q["decrease"] and (new is None or (cur is not None and cur <= new)):
                vote = neg
            else:
                write = True
    if q["asbool"] and vote is pos:
        vote = "ASBOOL"
    if q["nocontrib"]:
        vote = pos
    return write, vote


def run(idx, rep, tier):
    rep.explanation = (
        "The assignment implementation (Equality._do_assignment_new_impl with its helpers inlined) is interpreted at AST level for every "
        "combination of the 8 qualifiers x current value x new value x line-matches x logic mode; the observed write/vote is compared with "
        "the table of docs/assignment.md. Plus: argument wiring of _do_assignment, decision table of the onmatch look-ahead "
        "Qualified.line_matches, value table of ExpressionUtility.asbool, dispatch of Equality.matches. Exhaustive over the qualifier "
        "subsets and the value-relation classes; values themselves (what y is on a given line) are not decided.")
    rep.rule("R1", "write/vote table of the assignment equals docs/assignment.md for all 256 qualifier subsets")
    rep.rule("R2", "_do_assignment wires each qualifier, the new value and the current value under their own names")
    rep.rule("R3", "onmatch look-ahead: negative at the first non-matching expression; match count only when all match")
    rep.rule("R4", "asbool(y) value table")
    rep.rule("R5", "Equality.matches dispatch")
    r1(idx, rep, tier)
    r2(idx, rep)
    r3(idx, rep)
    r4(idx, rep)
    r5(idx, rep)
    # what the assignment reads: the current value as the csvpath holds it ('' and 'None' are values), y by header name as the headers are now
    from . import c03, c06
    c03.matcher_forwards(idx, rep, "R2")
    c06.header_value_sequence(idx, rep, "R2")
    # … and as the line is now: between lines every component is reset, also one that read an absent y (None) on the line before
    c06.reset_table(idx, rep, "R2")
    c06.reset_clears(idx, rep, "R2", classes={"Equality", "Header", "Variable", "Function", "Expression"})
    # "the rest of the line matching" that onmatch waits for is the expressions' verdicts as the matcher will see them: an expression below
    # which an error was handled does not match, also when it is a look-ahead that asks (C05.R5's Expression.matches table)
    from . import c05 as _c05
    _c05.r5(idx, K.as_rule(rep, "R3", keep=lambda k: "Expression.matches table" in k))
    # the table above runs on the checker's own small values, for which `is` and `==` coincide; the analysed code must not depend on that
    n = 0
    for cls in ("Equality", "Qualified", "Variable", "Matchable"):
        for nm, fm in idx.cls(cls).methods.items():
            n += 1
            for c in K.identity_compares(fm):
                rep.fail("R1", f"{fm.file}::{fm.qual} identity comparison `{unparse(c)}`", "values read from a file are compared by identity: two equal strings such as 'true' are "
                         "different objects, so onchange/latch would see a change on every line", K.where(fm, c))
    rep.check(n > 20, "R1", "csvpath/matching/productions::value comparisons use == / !=", f"{n} methods scanned", "csvpath/matching/productions")
    rep.stats["exhaustive"] = True


def r1(idx, rep, tier):
    fi = idx.method("Equality", "_do_assignment_new_impl")
    h1 = idx.method("Equality", "_latch_and_onchange")
    h2 = idx.method("Equality", "_set_variable_if")
    h3 = idx.method("Equality", "_test_friendly_line_matches")
    rep.analysed(fi, h1, h2, h3)

    def setvar(interp, call, recv, args, kwargs):
        interp.record_call("set_variable", (args, kwargs))

    def asbool(interp, call, recv, args, kwargs):
        interp.record_call("asbool", args)
        return Residual("ASBOOL")

    rows = 0
    bad = {}
    cur_dom = [None, 0, 1, 2, 3]
    new_dom = [None, 0, 1, 2, 3, "true", "false"]
    if tier == "thorough":
        cur_dom = cur_dom + [-1, 2.5, 10]
        new_dom = new_dom + [-1, 2.5, 10, "x", "True"]
    for bits in itertools.product([False, True], repeat=len(QUALS)):
        q = dict(zip(QUALS, bits))
        for dm in (True, False):
            for lm in ((True, False) if q["onmatch"] else (True,)):
                for cur in cur_dom:
                    for new in new_dom:
                        if isinstance(new, str) and (q["increase"] or q["decrease"]):
                            continue
                        if isinstance(new, str) and cur is not None:
                            continue
                        if (cur == 0 or new == 0) and (q["increase"] or q["decrease"]):
                            continue  # 0 with increase/decrease is outside the documented table (falsy-value corner)
                        rows += 1
                        it = Interp(idx, types={"self": "Equality"},
                                    inline={"Equality._latch_and_onchange", "Equality._set_variable_if", "Equality._test_friendly_line_matches"},
                                    unknown_calls="residual",
                                    domains={"self.default_match()": [dm]},
                                    handlers={"self.matcher.set_variable": setvar, "ExpressionUtility.asbool": asbool,
                                              "self.line_matches": lambda i, c, r, a, k: i.record_call("line_matches-live")})
                        args = dict(q)
                        args.update({"noqualifiers": False, "count": False, "new_value": new, "name": "x", "tracking": None,
                                     "current_value": cur,
                                     # Qualified.line_matches() answers default_match() when the rest of the line matches
                                     "line_matches": (dm if lm else (not dm))})
                        ps = it.run_all(fi, args={"name": "x", "tracking": None, "args": args})
                        if len(ps) != 1:
                            raise AnalysisError(f"assignment is not deterministic for {q} ({len(ps)} paths; first choices {ps[0].summary()['choices']})")
                        p = ps[0]
                        writes = p.calls("set_variable")
                        ww, wv = spec(q, cur, new, lm, dm)
                        kind, val = p.result
                        vv = "ASBOOL" if isinstance(val, Residual) and val.text == "ASBOOL" else val
                        cfg = f"@x.{'.'.join(k for k in QUALS if q[k]) or '(none)'} = y  current={cur!r} y={new!r} line_matches={lm} {'AND' if dm else 'OR'}"
                        if kind != "return":
                            bad.setdefault("returns", f"{cfg}: ends in {kind} {val}")
                            continue
                        if bool(writes) != ww or len(writes) > 1:
                            bad.setdefault("write", f"{cfg}: variable written {len(writes)}x, docs/assignment.md says {'write' if ww else 'no write'}")
                        elif writes:
                            a, kw = writes[0][1]
                            if kw.get("value") != new or (a and a[0] != "x"):
                                bad.setdefault("write", f"{cfg}: writes {a} {kw}, expected x = {new!r}")
                        if vv is not wv and vv != wv:
                            bad.setdefault("vote", f"{cfg}: votes {vv!r}, docs/assignment.md says {wv!r} (positive vote is {dm})")
    for aspect in ("returns", "write", "vote"):
        rep.check(aspect not in bad, "R1", f"{fi.file}::Equality assignment table {aspect}", bad.get(aspect, f"{rows} rows"), K.where(fi, fi.node))
    rep.stats["table_rows"] = rep.stats.get("table_rows", 0) + rows
    rep.sample({"rule": "R1", "rows": rows, "spec": "docs/assignment.md as spec() in rules/c14.py"})
    # _test_friendly_line_matches: a bool is taken as is, otherwise the live look-ahead
    it = Interp(idx, types={"self": "Equality"}, handlers={"self.line_matches": lambda i, c, r, a, k: Residual("LIVE")})
    okt = True
    for v, want in ((True, True), (False, False), (None, Residual("LIVE"))):
        ps = it.run_all(h3, args={"matches": v})
        if len(ps) != 1 or ps[0].result != ("return", want):
            okt = False
    rep.check(okt, "R1", f"{h3.file}::Equality._test_friendly_line_matches", "must use the live look-ahead unless a bool is injected", K.where(h3, h3.node))


def r2(idx, rep):
    fi = idx.method("Equality", "_do_assignment")
    rep.analysed(fi)
    captured = {}

    def impl(interp, call, recv, args, kwargs):
        interp.record_call("impl", kwargs)
        return Residual("RET")

    for count_name, nchild in (("count", 0), ("x", 0), ("count", 1)):
        it = Interp(idx, types={"self": "Equality"}, unknown_calls="residual",
                    domains={"self.left.onmatch": [True, False]},
                    handlers={"self._do_assignment_new_impl": impl})
        store = {"self.right.name": count_name, "self.right.children": [Obj("c")][:nchild]}
        for p in it.run_all(fi, args={"skip": []}, store=store):
            calls = p.calls("impl")
            if len(calls) != 1:
                rep.fail("R2", f"{fi.file}::Equality._do_assignment calls the implementation once", f"{len(calls)} calls", K.where(fi, fi.node))
                return
            kw = calls[0][1]
            a = kw.get("args", {})
            bad = []
            for qn in ("onchange", "latch", "asbool", "nocontrib", "notnone", "increase", "decrease"):
                v = a.get(qn)
                if not (isinstance(v, Residual) and v.text == f"self.left.{qn}"):
                    bad.append(f"{qn} <- {v!r}")
            om = p.atom("self.left.onmatch")
            is_count = count_name == "count" and nchild == 0
            want_om = bool(om) or is_count
            if bool(a.get("onmatch")) is not want_om:
                bad.append(f"onmatch <- {a.get('onmatch')!r} (left.onmatch={om}, bare count()={is_count})")
            nv = a.get("new_value")
            if not (isinstance(nv, Residual) and nv.text.startswith("self.right.to_value(")):
                bad.append(f"new_value <- {nv!r}")
            cv = a.get("current_value")
            if not (isinstance(cv, Residual) and cv.text.startswith("self.matcher.get_variable(self.left.name, tracking=self.left.first_non_term_qualifier(")):
                bad.append(f"current_value <- {cv!r}")
            if a.get("line_matches") is not None:
                bad.append(f"line_matches <- {a.get('line_matches')!r} (must be None: decided live)")
            nm = kw.get("name")
            if not (isinstance(nm, Residual) and nm.text == "self.left.name"):
                bad.append(f"name <- {nm!r}")
            tr = kw.get("tracking")
            if not (isinstance(tr, Residual) and tr.text.startswith("self.left.first_non_term_qualifier(")):
                bad.append(f"tracking <- {tr!r}")
            if bad:
                rep.fail("R2", f"{fi.file}::Equality._do_assignment wiring", "; ".join(bad), K.where(fi, fi.node))
                return
    rep.ok("R2", f"{fi.file}::Equality._do_assignment wiring", "", K.where(fi, fi.node))
    # qualifier properties read their own member of Qualities
    qc = idx.cls("Qualified")
    names = {"onmatch": "ONMATCH", "onchange": "ONCHANGE", "latch": "LATCH", "asbool": "ASBOOL", "nocontrib": "NOCONTRIB",
             "notnone": "NOTNONE", "increase": "INCREASE", "decrease": "DECREASE", "once": "ONCE"}
    qual = idx.cls("Qualities")
    qvals = {k: v.value for k, v in qual.class_assigns.items() if isinstance(v, ast.Constant)}
    for prop, member in names.items():
        pr = None
        for c in idx.mro("Variable"):
            if prop in c.properties and "get" in c.properties[prop]:
                pr = c.properties[prop]["get"]
                break
        if pr is None:
            raise AnalysisError(f"qualifier property {prop} not found on Variable")
        # the accessor answers "is my own qualifier present", whatever else is present: all sets of <= 2 qualifiers (and none)
        consts = {f"Qualities.{m}.value": v for m, v in qvals.items()}
        allq = sorted(qvals.values())
        sets = [None, []] + [[q] for q in allq] + [[a, b] for a in allq for b in allq if a != b]
        bad = None
        for S in sets:
            st = dict(consts)
            st.update(K.ctor_literals(idx, "Variable"))
            it = Interp(idx, types={"self": "Variable"}, unknown_calls="residual", inline={f"{c.name}.qualifiers" for c in idx.mro("Variable")})

            def program(i, S=S):
                # the qualifiers get there the way they do in the package: through the `qualifiers` setter (None included)
                i.assign(ast.parse("self.qualifiers = 0").body[0].targets[0], None if S is None else list(S), {"__self__": "self"})
                return i.call_function(pr, {"__pos__": []}, "self")

            ps = it.run_program(program, st)
            want = bool(S) and prop in S
            if len(ps) != 1 or ps[0].result[0] != "return" or bool(ps[0].result[1]) is not want or isinstance(ps[0].result[1], Residual):
                bad = bad or f"qualifiers {S}: .{prop} is {[p.result for p in ps][:2]}, documented {want} (each qualifier is independent of the others)"
        rep.check(bad is None and qvals.get(member) == prop, "R2", f"{pr.file}::{pr.qual} reads Qualities.{member}",
                  bad or f"Qualities.{member}={qvals.get(member)!r}", K.where(pr, pr.node))


def r3(idx, rep):
    fi = idx.method("Qualified", "line_matches")
    rep.analysed(fi)
    bad = None
    n = 0
    for k in (1, 2, 3):
        for memo in itertools.product([None, True, False], repeat=k):
            for dm in (True,):
                def comp(interp, call, recv, args, kwargs):
                    interp.path.__dict__.setdefault("evaluated", []).append(recv.name)
                    return interp.choose(recv.name, [True, False, None], memo=False)

                it = Interp(idx, types={"self": "Qualified"}, domains={"self.default_match()": [dm], "self.my_expression": [Obj("e0")]},
                            handlers={".matches": comp, "self.matcher.csvpath.raise_match_count_if": lambda i, c, r, a, kk: i.record_call("raise_match_count_if")})
                store = {"self.matcher.expressions": [[Obj(f"e{i}"), memo[i]] for i in range(k)]}
                for p in it.run_all(fi, store=store):
                    n += 1
                    ev = p.__dict__.get("evaluated", [])
                    votes = dict((t, v) for t, v in p.choices if t.startswith("e"))
                    # documented: walk expressions in order; memo True counts as matching; stop at the first non-matching
                    want_ev = []
                    result = True
                    for i in range(k):
                        if memo[i] is True:
                            continue
                        want_ev.append(f"e{i}")
                        v = votes.get(f"e{i}")
                        if not v:
                            result = False
                            break
                    cfg = f"memo={list(memo)} votes={votes}"
                    if ev != want_ev:
                        bad = bad or f"{cfg}: evaluated {ev}, documented {want_ev} (in order, short-circuit at the first non-matching expression)"
                    if p.result != ("return", result if dm else (not result)):
                        bad = bad or f"{cfg}: line_matches returns {p.result}, documented {result}"
                    # memo discipline: a vote taken here is written down so that the matcher does not evaluate that expression a second
                    # time on this line (its side effects would run twice) — except for the component's own expression, which the matcher
                    # is evaluating right now
                    final = p.final_store.get("self.matcher.expressions")
                    want_memo = list(memo)
                    for name in want_ev:
                        i = int(name[1:])
                        v = votes.get(name)
                        if not v:
                            want_memo[i] = False
                        elif v is True and i != 0:
                            want_memo[i] = True
                    got_memo = [e[1] for e in final]
                    if got_memo != want_memo:
                        bad = bad or f"{cfg}: memoised votes after the look-ahead {got_memo}, documented {want_memo} (own expression e0 is not memoised as matching)"
                    rc = len(p.calls("raise_match_count_if"))
                    if rc != (1 if result else 0):
                        bad = bad or f"{cfg}: raise_match_count_if called {rc}x; it may only be raised when every expression matched"
    rep.check(bad is None, "R3", f"{fi.file}::Qualified.line_matches table", bad or f"{n} paths", K.where(fi, fi.node))
    rep.stats["table_rows"] = rep.stats.get("table_rows", 0) + n
    fd = idx.method("Qualified", "do_onmatch")
    rep.analysed(fd)
    it = Interp(idx, types={"self": "Qualified"}, domains={"self.onmatch": [True, False], "self.line_matches()": [True, False]})
    bad = None
    for p in it.run_all(fd):
        om, lm = p.atom("self.onmatch"), p.atom("self.line_matches()")
        want = (not om) or bool(lm)
        if p.result != ("return", want):
            bad = f"onmatch={om} line_matches={lm}: do_onmatch returns {p.result}"
    rep.check(bad is None, "R3", f"{fd.file}::Qualified.do_onmatch table", bad or "", K.where(fd, fd.node))


def r4(idx, rep):
    fi = idx.method("ExpressionUtility", "asbool")
    rep.analysed(fi)
    table = [(None, False), (False, False), (True, True), (0, False), (1, True), (2, True), (3, True), ("true", True), ("false", False),
             ("True", True), ("FALSE", False), (" false ", False), ("x", True), ("", False), ("nan", False), ([], True)]
    bad = None
    for v, want in table:
        it = Interp(idx, types={"cls": "ExpressionUtility"}, handlers={"cls.isnan": lambda i, c, r, a, k: False})
        ps = it.run_all(fi, args={"v": v}, selfkey="cls")
        if len(ps) != 1 or ps[0].result != ("return", want):
            bad = bad or f"asbool({v!r}) is {ps[0].result}, documented {want}"
    rep.check(bad is None, "R4", f"{fi.file}::ExpressionUtility.asbool table", bad or f"{len(table)} values", K.where(fi, fi.node))
    # … and the answer for a value does not depend on what was asked before (an absent y and the cell text 'None', 0 and '0', True and 'True'
    # are different values with the same text): every value alone, then all of them in one process in both orders
    vals = [v for v, _ in table] + ["None", "0", "1", "False", " 1 ", "nan "]

    def ask(seq):
        it = Interp(idx, types={"cls": "ExpressionUtility"}, handlers={"cls.isnan": lambda i, c, r, a, k: False}, unknown_calls="residual")
        ps = it.run_program(lambda i: [i.call_function(fi, {"v": v}, "cls") for v in seq], {})
        if len(ps) != 1 or ps[0].result[0] != "return":
            raise AnalysisError(f"asbool is not deterministic on {seq}: {[p.result for p in ps][:2]}")
        return ps[0].result[1]

    alone = [ask([v])[0] for v in vals]
    bad = None
    for order in (list(range(len(vals))), list(reversed(range(len(vals))))):
        got = ask([vals[j] for j in order])
        for j, g in zip(order, got):
            if g != alone[j]:
                bad = bad or f"asbool({vals[j]!r}) is {alone[j]!r} when asked first and {g!r} after {[vals[k] for k in order[:order.index(j)]]!r} were asked in the same process"
    rep.check(bad is None, "R4", f"{fi.file}::ExpressionUtility.asbool does not depend on earlier questions", bad or f"{len(vals)} values, two orders", K.where(fi, fi.node))


def r5(idx, rep):
    fi = idx.method("Equality", "matches")
    rep.analysed(fi)

    def iso(interp, args, call):
        return interp.choose("left is Variable", [True, False])

    def rec(name):
        def h(interp, call, recv, args, kwargs):
            interp.record_call(name)
            return Residual(name)
        return h

    it = Interp(idx, types={"self": "Equality"}, isinstance_oracle=iso, unknown_calls="residual",
                domains={"self.op": ["=", "==", "->", ","], "self.match": [None]},
                handlers={"self._do_assignment": rec("assign"), "self._do_when": rec("when"), "self._do_equality": rec("equality")})
    bad = None
    for p in it.run_all(fi, args={"skip": []}):
        op = p.atom("self.op")
        isvar = p.atom("left is Variable")
        want = "assign" if (isvar and op == "=") else ("when" if op == "->" else "equality")
        got = [k[1] for k in p.trace if k[0] == "call" and k[1] in ("assign", "when", "equality")]
        if got != [want]:
            bad = bad or f"op={op!r} left-is-variable={isvar}: dispatches to {got}, documented {want}"
        ms = p.sets("self.match")
        if not ms or not isinstance(ms[-1], Residual) or ms[-1].text != want:
            bad = bad or f"op={op!r}: the component's vote is not the dispatched result ({ms})"
    rep.check(bad is None, "R5", f"{fi.file}::Equality.matches dispatch", bad or "", K.where(fi, fi.node))
