"""C15 — comment mode settings take effect; matched and unmatched partition the file.

  R1 mode tables        ReturnMode / RunMode / UnmatchedMode / LogicMode / SourceMode value tables; CsvPath property wiring
  R2 all modes applied  ModeController.update updates every mode; MODES lists every mode key; get() reads the metadata
  R3 complement         _consider_line verdict: (matched) XOR return-mode no-matches on offered lines, advance included
  R4 partition          CsvPath.next: every reader line yielded or kept as unmatched, once (shared with C07.R7)
  R5 no-run             run-mode no-run reads nothing, yields nothing
  R6 outer comment      MetadataParser.extract_csvpath_and_comment / collect_metadata tables
  R7 print-mode         PrintMode.update_printers removes/ensures only the StdOutPrinter
"""
import ast
import itertools

from sa.index import AnalysisError, unparse, walk_no_nested, call_name
from sa.absint import Interp, Obj, Residual
from . import common as K
from . import consider_model as CM
from . import next_model as NM

MODE_TABLES = {
    # class: (private attr, [(metadata value, expected bool | 'raise')])
    "ReturnMode": ("_return_mode", [(None, False), ("matches", False), ("no-matches", True), (" no-matches ", True), ("nomatches", "raise")]),
    "RunMode": ("_run_mode", [(None, True), ("run", True), ("no-run", False), (" no-run", False), ("never", "raise")]),
    "UnmatchedMode": ("_unmatched_mode", [(None, False), ("keep", True), ("no-keep", False)]),
    "LogicMode": ("_AND", [(None, True), ("AND", True), ("and", True), ("OR", False), ("or", False), (" or ", False), ("xor", "raise")]),
    "SourceMode": ("_source_mode", [(None, False), ("preceding", True), ("origin", False), ("default", False)]),
}
MODE_KEYS = {"ReturnMode": "return-mode", "RunMode": "run-mode", "UnmatchedMode": "unmatched-mode", "LogicMode": "logic-mode",
             "SourceMode": "source-mode", "PrintMode": "print-mode", "ValidationMode": "validation-mode", "ExplainMode": "explain-mode",
             "FilesMode": "files-mode", "TransferMode": "transfer-mode"}
WIRING = {
    "collect_when_not_matched": "self.modes.return_mode.collect_when_not_matched",
    "will_run": "self.modes.run_mode.value",
    "unmatched_available": "self.modes.unmatched_mode.value",
    "AND": "self.modes.logic_mode.value",
    "data_from_preceding": "self.modes.source_mode.value",
}


def run(idx, rep, tier):
    rep.explanation = (
        "Value tables of the mode classes (metadata value → boolean) by abstract interpretation of their update()/value code; the mode "
        "controller updates and lists every mode; CsvPath reads each mode through its own property; decision tables of _consider_line "
        "(complement under return-mode no-matches, including advanced lines) and of the generator next() (partition into yielded and "
        "unmatched lines, no-run reads nothing); tables of the outer-comment scanner and the key:value collector on a corpus of comments; "
        "print-mode removes only the standard-out printer. The word/colon accumulator is decided on the corpus only.")
    rep.rule("R1", "mode value tables and CsvPath property wiring")
    rep.rule("R2", "every mode is updated from the metadata")
    rep.rule("R3", "return-mode no-matches returns exactly the scanned lines the default mode does not")
    rep.rule("R4", "collected and unmatched lines partition the records read")
    rep.rule("R5", "run-mode no-run reads nothing")
    rep.rule("R6", "outer comments go to metadata only; key: value fields are collected")
    rep.rule("R7", "print-mode no-default removes only standard-out printing")
    r1(idx, rep)
    r2(idx, rep)
    r3(idx, rep)
    r45(idx, rep)
    r6(idx, rep)
    r7(idx, rep)
    # "each once": a group run collects into its own run directory (data.csv is opened for append; a stale directory doubles the lines)
    from . import c10
    c10.run_state(idx, K.as_rule(rep, "R4"), "R4")
    # the same two modes in a breadth-first run of a group: unmatched lines are kept per member, a no-run member is never handed a line
    from . import c08
    c08.byline_keep(idx, rep, "R4")
    c08.byline_norun(idx, rep, "R5")
    c08.r2(idx, K.as_rule(rep, "R3", keep=lambda k: "one fresh csvpath per member" in k))
    imported_comment(idx, rep, "R6")
    # … and in a serial run: what a member kept is archived with its result however the member's run ended
    from . import c09, c12, c13
    c09.serial_unmatched(idx, rep, "R4")
    # the complement is taken over every scanned record: only the empty record [] at the end of the file is the 'blank last line' that is
    # returned by neither mode; a record of one empty or white-space cell is a line like any other
    c13.r4(idx, K.as_rule(rep, "R3", keep=lambda k: "is_last_line_and_blank" in k))
    # the comment that counts for a member run by identity (name#id, $name.csvpaths.id) is the one registered last under that name
    n, msg = c12.run_sequences(idx, 0, extra=((("add", "g", "G1"), ("add", "g", "G2")), (("add", "g", "G2"), ("read",), ("add", "g", "G5")), (("add", "g", "G1"), ("read",), ("add", "g", "G3"))))
    rep.check(msg is None, "R6", "csvpath/managers/paths/paths_manager.py::a member selected by identity is the csvpath (and comment) registered last", msg or f"{n} operation sequences",
              "csvpath/managers/paths/paths_manager.py")
    rep.stats["exhaustive"] = True


def mode_value_tables(idx, rep, rid, classes=None):
    for cls, (attr, table) in MODE_TABLES.items():
        if classes is not None and cls not in classes:
            continue
        fu = idx.method(cls, "update")
        rep.analysed(fu, idx.method(cls, "value"))
        bad = None
        base = K.instance_store(idx, cls)
        for mv, want in table:
            it = Interp(idx, types={"self": cls}, inline={f"{cls}.value"}, unknown_calls="error",
                        handlers={"self.controller.get": lambda i, c, r, a, k, mv=mv: (i.record_call("get", a[0]), mv)[1]})
            ps = it.run_all(fu, store=dict(base))
            if len(ps) != 1:
                raise AnalysisError(f"{cls}.update is not deterministic ({len(ps)} paths)")
            p = ps[0]
            key = [v for kk, v in p.calls("get")]
            if key and key[0] != MODE_KEYS[cls]:
                bad = bad or f"{cls} reads the metadata key {key[0]!r}, documented {MODE_KEYS[cls]!r}"
            if want == "raise":
                if p.result[0] != "raise":
                    bad = bad or f"{MODE_KEYS[cls]}: {mv!r} is accepted ({p.final_store.get('self.' + attr)!r}); an unknown value must be rejected"
            else:
                got = p.final_store.get("self." + attr)
                if p.result[0] != "return" or got is not want:
                    bad = bad or f"{MODE_KEYS[cls]}: {mv!r} gives {got!r} ({p.result[0]}), docs/comments.md says {want!r}"
        rep.check(bad is None, rid, f"{fu.file}::{cls} value table", bad or f"{len(table)} values", K.where(fu, fu.node))
        # the same on an instance with a history: parsed with the comment's value, then set by hand through the API (which writes the
        # metadata), then parsed again — the comment is collected again and its value is the mode again
        fset = idx.method(cls, "value.setter")
        bad = None
        for mv, want in table:
            if want == "raise":
                continue
            for flip in (True, False):
                meta = {"v": mv}
                it = Interp(idx, types={"self": cls}, inline={f"{cls}.value"}, unknown_calls="residual",
                            handlers={"self.controller.get": lambda i, c, r, a, k, meta=meta: meta["v"],
                                      "self.controller.set": lambda i, c, r, a, k, meta=meta: meta.__setitem__("v", a[1])})

                def program(i, mv=mv, flip=flip, meta=meta):
                    i.call_function(fu, {"__pos__": []}, "self")
                    first = i.store.get("self." + attr)
                    i.call_function(fset, {"__pos__": [flip]}, "self")
                    if mv is not None:
                        meta["v"] = mv      # the next parse collects the comment again; a comment that says nothing leaves the API's setting
                    i.call_function(fu, {"__pos__": []}, "self")
                    return first, i.store.get("self." + attr)

                ps = it.run_program(program, dict(base))
                want2 = want if mv is not None else None
                ok = len(ps) == 1 and ps[0].result[0] == "return" and ps[0].result[1][0] is want and (want2 is None or ps[0].result[1][1] is want2)
                if not ok:
                    bad = bad or (f"{MODE_KEYS[cls]}: {mv!r} parsed, then set to {flip} by hand, then the same csvpath parsed again: the mode is {[p.result for p in ps][:2]}, "
                                  f"documented {(want, want)!r} (what the comment says, each time it is parsed)")
        rep.check(bad is None, rid, f"{fu.file}::{cls} value after parse / set / parse", bad or f"{len(table)} values x 2", K.where(fu, fu.node))


def r1(idx, rep):
    mode_value_tables(idx, rep, "R1")
    # programmatic setters: setting a boolean and re-reading it from the metadata it writes gives the same boolean
    for cls in MODE_TABLES:
        attr = MODE_TABLES[cls][0]
        fset = idx.method(cls, "value.setter")
        fget = idx.method(cls, "value")
        bad = None
        for b in (True, False):
            meta = {}
            it = Interp(idx, types={"self": cls}, inline={f"{cls}.value"}, unknown_calls="residual",
                        handlers={"self.controller.set": lambda i, c, r, a, k, meta=meta: meta.__setitem__(a[0], a[1]), "self.controller.get": lambda i, c, r, a, k, meta=meta: meta.get(a[0])})

            def program(it, b=b, fset=fset, fget=fget, attr=attr):
                it.call_function(fset, {"__pos__": [b]}, "self")
                it.store["self." + attr] = None
                return it.call_function(fget, {}, "self")

            ps = it.run_program(program, {})
            if len(ps) != 1 or ps[0].result != ("return", b):
                bad = bad or f"setting {MODE_KEYS[cls]} to {b} writes {meta} which reads back as {ps[0].result}"
        rep.check(bad is None, "R1", f"{fset.file}::{cls} setter/getter round trip", bad or "", K.where(fset, fset.node))
    # ReturnMode.collect_when_not_matched: True exactly when the mode value is True
    fr = idx.method("ReturnMode", "collect_when_not_matched")
    bad = None
    for v in (True, False, None):
        _, ps = K.sym_result(idx, "ReturnMode", "collect_when_not_matched", store={"self.value": v, "self._return_mode": v})
        if len(ps) != 1 or ps[0].result != ("return", v is True):
            bad = bad or f"mode value {v!r}: {[p.result for p in ps]}, documented {v is True}"
    rep.check(bad is None, "R1", f"{fr.file}::ReturnMode.collect_when_not_matched", bad or "", K.where(fr, fr.node))
    # CsvPath reads each mode through that mode's own object (interpreted accessors: the value that comes back is the mode's)
    for prop, want in WIRING.items():
        fi, ps = K.sym_result(idx, "CsvPath", prop)
        got = ps[0].result[1] if len(ps) == 1 and ps[0].result[0] == "return" else None
        rep.check(isinstance(got, Residual) and got.text == want, "R1", f"{fi.file}::CsvPath.{prop} wiring", f"returns {got!r}, expected {want}", K.where(fi, fi.node))
    fo = idx.method("CsvPath", "OR")
    bad = None
    for v in (True, False):
        _, ps = K.sym_result(idx, "CsvPath", "OR", store={"self.modes.logic_mode.value": v})
        if len(ps) != 1 or ps[0].result != ("return", not v):
            bad = bad or f"logic-mode AND={v}: OR is {[p.result for p in ps]}"
    rep.check(bad is None, "R1", f"{fo.file}::CsvPath.OR wiring", bad or "", K.where(fo, fo.node))


def r2(idx, rep):
    ci = idx.cls("ModeController")
    init = ci.methods["__init__"]
    upd = ci.methods["update"]
    rep.analysed(init, upd)
    # interpreted: the mode objects the controller creates (however __init__ walks them)
    mode_classes = sorted(c for c in idx.classes if c.endswith("Mode") and c != "Mode" and idx.classes[c][0].file.startswith("csvpath/modes/"))
    iti = Interp(idx, types={"self": "ModeController"}, unknown_calls="residual",
                 handlers={c: (lambda i, cc, r, a, k, c=c: Obj("new:" + c)) for c in mode_classes})
    psi = iti.run_all(init, args={"csvpath": Obj("cp")})
    if len(psi) != 1 or psi[0].result[0] != "return":
        raise AnalysisError(f"C15.R2: ModeController.__init__ is not a single normal path on the model ({[p.result for p in psi][:2]})")
    created = {k[5:]: v.name[4:] for k, v in psi[0].final_store.items() if k.startswith("self.") and isinstance(v, Obj) and v.name.startswith("new:")}
    # interpreted: which of the mode objects does update() refresh (however it walks them)
    # … whatever the metadata holds: a csvpath without a comment (empty metadata) gets the same refresh as one with a comment that sets no
    # mode, so that adding such a comment changes nothing
    missing = {}
    for label, md in (("a comment with a mode", {"return-mode": "no-matches", "id": "x"}), ("a comment without modes", {"description": "d"}), ("no comment (empty metadata)", {}),
                      ("no metadata yet (None)", None)):
        updated = []
        itu = Interp(idx, types={"self": "ModeController"}, unknown_calls="residual", handlers={".update": lambda i, c, r, a, k, updated=updated: updated.append("self." + getattr(r, "name", getattr(r, "text", "?")))})
        stu = dict(K.instance_store(idx, "ModeController"))
        stu.update({f"self.{a}": Obj(a) for a in created})
        stu["self.csvpath.metadata"] = md
        psu = itu.run_all(upd, store=stu)
        if len(psu) != 1 or psu[0].result[0] != "return":
            raise AnalysisError(f"C15.R2: ModeController.update is not a single normal path on the model with {label} ({[p.result for p in psu][:2]})")
        for attr in created:
            if f"self.{attr}" not in updated:
                missing.setdefault(attr, label)
    for attr, cls in created.items():
        rep.check(attr not in missing, "R2", f"{ci.file}::ModeController.update updates {attr}",
                  f"{cls} is created but not updated from the metadata with {missing.get(attr)}: its setting would be ignored, or a csvpath would behave differently with and without a comment",
                  K.where(upd, upd.node))
    rep.floor("R2", 8, "mode objects")
    okm, listed = Interp(idx, types={}).lookup("ModeController.MODES")
    listed = list(listed) if okm and isinstance(listed, (list, tuple)) else []
    for cls in created.values():
        rep.check(MODE_KEYS.get(cls) in listed, "R2", f"{ci.file}::ModeController.MODES lists {cls}", f"{listed}", ci.file)
        k = idx.cls(cls).class_assigns.get("MODE")
        rep.check(isinstance(k, ast.Constant) and k.value == MODE_KEYS.get(cls), "R2", f"{idx.cls(cls).file}::{cls}.MODE key", f"{unparse(k) if k is not None else None} vs {MODE_KEYS.get(cls)!r}", idx.cls(cls).file)
    fg = ci.methods["get"]
    okg = True
    for mode in ("return-mode", "run-mode"):
        _, ps = K.sym_result(idx, "ModeController", "get", args={"mode": mode}, store={"self.csvpath.metadata": {"return-mode": "no-matches", "run-mode": "no-run", "id": "x"},
                                                                                      "ModeController.MODES": sorted(MODE_KEYS.values())})
        okg = okg and len(ps) == 1 and ps[0].result == ("return", {"return-mode": "no-matches", "run-mode": "no-run"}[mode])
    rep.check(okg, "R2", f"{ci.file}::ModeController.get reads the metadata", "", K.where(fg, fg.node))
    # CsvPath.parse / _load_csvpath update the settings after extracting the metadata
    fp = idx.method("CsvPath", "parse")
    m = K.Must(gen=K.call_pred("extract_metadata")).run(fp.node)
    sites = K.find_stmts(fp.node, K.call_pred("update_settings_from_metadata"))
    rep.check(bool(sites) and all(m.in_state.get(s) for s in sites), "R2", f"{fp.file}::CsvPath.parse applies the settings after reading the comment", "", K.where(fp, fp.node))
    got = []
    fu, ps = K.sym_result(idx, "CsvPath", "update_settings_from_metadata", handlers={"self.modes.update": lambda i, c, r, a, k: got.append(1)})
    rep.check(got == [1], "R2", f"{fu.file}::CsvPath.update_settings_from_metadata updates the modes", f"{len(got)} call(s)", K.where(fu, fu.node))


def r3(idx, rep):
    fi, crow = CM.rows(idx)
    rep.analysed(fi)
    bad = None
    for adv, p in crow:
        f = CM.facts(adv, p)
        if f["result"][0] != "return":
            bad = bad or f"{f['result']}"
            continue
        val = f["result"][1]
        offered = (not f["blank_last"]) and not (f["skip_blank"] and f["empty"]) and bool(f["includes"])
        matched = (f["vote"] is True) if adv == 0 else False
        default_mode = offered and matched
        want = offered and (matched != bool(f["cwnm"]))
        if val is not want:
            cfg = {k: f[k] for k in ("adv", "blank_last", "skip_blank", "empty", "includes", "cwnm", "vote")}
            bad = bad or (f"{cfg}: returns {val!r}; a scanned line is returned under return-mode no-matches exactly when the default mode does not return it "
                          f"(default would return {default_mode}); lines skipped by advance count as not matched")
    rep.check(bad is None, "R3", f"{fi.file}::CsvPath._consider_line complement table", bad or f"{len(crow)} rows", K.where(fi, fi.node))
    rep.stats["table_rows"] = rep.stats.get("table_rows", 0) + len(crow)


def r45(idx, rep):
    from .c07 import r4_r5_r7

    class Proxy:
        def __init__(self, rep):
            self.rep = rep
            self.stats = rep.stats

        def __getattr__(self, n):
            return getattr(self.rep, n)

        def check(self, cond, rid, key, detail="", where=""):
            if rid == "R7":
                return self.rep.check(cond, "R4", key, detail, where)
            if "stops after" in key:
                return self.rep.check(cond, "R4", key, detail, where)
            return True

    r4_r5_r7(idx, Proxy(rep))
    fi, rows = NM.rows(idx, nlines=2)
    bad = None
    for n, p in rows:
        if p.atom("self.will_run"):
            continue
        ev = [kk for k, kk, v in p.trace if k in ("call", "yield") and kk in ("_consider_line", "yield", "limit_collection")]
        nl = [t for t, v in p.choices if t == "self._next_line()"]
        if ev or nl:
            bad = f"run-mode no-run: the reader is opened or lines are considered ({ev}, {nl})"
    rep.check(bad is None, "R5", f"{fi.file}::CsvPath.next no-run reads nothing", bad or "", K.where(fi, fi.node))


COMMENTS = [
    ("id: one", {"id": "one"}), ("id: one name: my path", {"id": "one", "name": "my path"}), ("name: my new csvpath", {"name": "my new csvpath"}),
    ("description: a b c id:x", {"description": "a b c", "id": "x"}), ("return-mode: no-matches", {"return-mode": "no-matches"}),
    ("run-mode:no-run print-mode: no-default", {"run-mode": "no-run", "print-mode": "no-default"}), ("free text only", {}),
    ("a comment with : a stand-alone colon", {}), ("id: x\nname: y", {"id": "x", "name": "y"}),
    ("validation-mode: no-raise, no-print id: t", {"validation-mode": "no-raise, no-print", "id": "t"}), ("id:one two three name:z", {"id": "one two three", "name": "z"}),
    ("x: 1 y: 2 z: 3", {"x": "1", "y": "2", "z": "3"}), ("test-delimiter: a,b;c", {"test-delimiter": "a,b;c"}), ("id: first-path", {"id": "first-path"}),
    ("weird!chars? id: q!r", {"id": "q!r"}), ("this is id: my id and name: my name.", {"id": "my id and", "name": "my name."}),
    ("unmatched-mode: keep logic-mode: OR", {"unmatched-mode": "keep", "logic-mode": "OR"}),
    ("prénom: José größe: 5 id: ü1", {"prénom": "José", "größe": "5", "id": "ü1"}), ("名前: テスト return-mode: no-matches", {"名前": "テスト", "return-mode": "no-matches"}),
]
COMMENTS += [
    # a value is everything up to the next coloned word, whatever character it starts with
    ("ratio: .5 path: /tmp/x", {"ratio": ".5", "path": "/tmp/x"}), ('q: "quoted" note: (draft) v2', {"q": '"quoted"', "note": "(draft) v2"}),
    ("sep: | id: a1", {"sep": "|", "id": "a1"}), ("delta: -1 id: +x", {"delta": "-1", "id": "+x"}),
]
COMMENTS_PARTIAL = [
    # free text with adjacent colons is still free text: no exception, the named fields are kept
    ("uses std::vector semantics id: v", {"id": "v"}), ("todo:: tighten", {}), ("title: : DRAFT", {}), ("addr is ::1 id: six", {"id": "six"}), ("a: : b: c", {"b": "c"}),
    # only the listed keys are checked (the stand-alone colon leaves an unnamed entry that the docs do not specify)
    ("note : DRAFT do not use author: Anatila", {"author": "Anatila"}),
    ("todo : later return-mode: no-matches", {"return-mode": "no-matches"}),
]
OUTER = [
    ("$f[*][yes()]", ("$f[*][yes()]", "")), ("~ id: x ~ $f[*][yes()]", ("$f[*][yes()]", " id: x ")), ('~c~$f[1][#a == "~"]', ('$f[1][#a == "~"]', "c")),
    ("$f[*][yes()] ~ trailing ~", ("$f[*][yes()]", " trailing ")), ("~a~ $f[*][ ~inner~ yes() ]", ("$f[*][ ~inner~ yes() ]", "a")),
    ("~ has $ dollar ~ $f[*][no()]", ("$f[*][no()]", " has $ dollar ")), ("  ~x~\n$f[*][\n yes()\n]\n", ("$f[*][\n yes()\n]", "x")),
    ("~ return-mode: no-matches ~$f[1-3][#a]", ("$f[1-3][#a]", " return-mode: no-matches ")),
]
# comments above and below the csvpath are both outer comments: their fields do not run into each other (metadata end to end)
ABOVE_BELOW = [
    ("~id:x~$f[*][yes()]~name:y~", {"id": "x", "name": "y"}), ("~about~ $f[*][#a] ~id: second~", {"id": "second"}),
    ("~ id: top ~\n$f[*][yes()]\n~ note: below ~", {"id": "top", "note": "below"}),
]


def r6(idx, rep):
    fc = idx.method("MetadataParser", "collect_metadata")
    fe = idx.method("MetadataParser", "extract_csvpath_and_comment")
    rep.analysed(fc, fe)
    bad = None
    for c, want in COMMENTS + COMMENTS_PARTIAL:
        it = Interp(idx, types={"self": "MetadataParser"}, unknown_calls="residual")
        ps = it.run_all(fc, args={"instance": Obj("inst"), "comment": c}, store={"inst.metadata": {}})
        got = ps[0].final_store.get("inst.metadata") if len(ps) == 1 else None
        partial = (c, want) in COMMENTS_PARTIAL
        ok = len(ps) == 1 and ps[0].result[0] == "return" and ((all(got.get(k) == v for k, v in want.items())) if partial else got == want)
        if not ok:
            bad = bad or f"outer comment {c!r}: metadata {got!r} ({ps[0].result[0]}), documented {want!r}"
    rep.check(bad is None, "R6", f"{fc.file}::MetadataParser.collect_metadata corpus", bad or f"{len(COMMENTS) + len(COMMENTS_PARTIAL)} comments", K.where(fc, fc.node))
    metadata_merge(idx, rep, "R6")
    result_keeps_metadata(idx, rep, "R6")
    bad = None
    for c, want in OUTER:
        it = Interp(idx, types={"self": "MetadataParser"}, unknown_calls="residual")
        ps = it.run_all(fe, args={"csvpath": c})
        if len(ps) != 1 or ps[0].result != ("return", want):
            bad = bad or f"{c!r}: split into {ps[0].result}, documented {want!r} (text between ~ outside the brackets is comment, everything else is csvpath)"
    rep.check(bad is None, "R6", f"{fe.file}::MetadataParser.extract_csvpath_and_comment corpus", bad or f"{len(OUTER)} csvpaths", K.where(fe, fe.node))
    bad = None
    fx0 = idx.method("MetadataParser", "extract_metadata")
    for c, want in ABOVE_BELOW:
        it = Interp(idx, types={"self": "MetadataParser"}, inline={"MetadataParser.extract_csvpath_and_comment", "MetadataParser.collect_metadata"}, unknown_calls="residual")
        ps = it.run_all(fx0, args={"instance": Obj("inst"), "csvpath": c}, store={"inst.metadata": {}})
        got = ps[0].final_store.get("inst.metadata") if len(ps) == 1 else None
        if len(ps) != 1 or ps[0].result[0] != "return" or not isinstance(got, dict) or any(got.get(k) != v for k, v in want.items()):
            bad = bad or f"{c!r}: metadata {got!r}, documented {want!r} (a comment above and a comment below are two comments: the fields of one do not run into the other)"
    rep.check(bad is None, "R6", f"{fe.file}::MetadataParser comments above and below", bad or f"{len(ABOVE_BELOW)} csvpaths", K.where(fe, fe.node))
    # extract_metadata: returns the csvpath part; collects from the comment part; keeps the original comment
    fx = idx.method("MetadataParser", "extract_metadata")
    rep.analysed(fx)
    it = Interp(idx, types={"self": "MetadataParser"}, inline={"MetadataParser.extract_csvpath_and_comment", "MetadataParser.collect_metadata"}, unknown_calls="residual")
    ps = it.run_all(fx, args={"instance": Obj("inst"), "csvpath": "~ id: k return-mode: no-matches ~ $f[*][yes()]"}, store={"inst.metadata": {}})
    md = ps[0].final_store.get("inst.metadata") if len(ps) == 1 else None
    ok = len(ps) == 1 and ps[0].result == ("return", "$f[*][yes()]") and md and md.get("id") == "k" and md.get("return-mode") == "no-matches"
    rep.check(ok, "R6", f"{fx.file}::MetadataParser.extract_metadata end to end", f"{ps[0].result}, {md}", K.where(fx, fx.node))


def metadata_merge(idx, rep, rid):
    """metadata already on the instance (a mode a setter or a by-line run seeded, a key of an earlier parse): what the comment says wins,
    what it does not mention stays"""
    fc = idx.method("MetadataParser", "collect_metadata")
    bad = None
    cases = [({"return-mode": "matches", "other": "x"}, "return-mode: no-matches id: y", {"return-mode": "no-matches", "id": "y", "other": "x"}),
             ({"logic-mode": "AND"}, "logic-mode: OR", {"logic-mode": "OR"}),
             (None, "id: y", {"id": "y"})]
    for pre, c, want in cases:
        it = Interp(idx, types={"self": "MetadataParser"}, unknown_calls="residual")
        ps = it.run_all(fc, args={"instance": Obj("inst"), "comment": c}, store={"inst.metadata": None if pre is None else dict(pre)})
        got = ps[0].final_store.get("inst.metadata") if len(ps) == 1 else None
        if len(ps) != 1 or ps[0].result[0] != "return" or got != want:
            bad = bad or f"metadata {pre!r} before, outer comment {c!r}: metadata {got!r} afterwards, documented {want!r} (a mode written in the comment takes effect whatever was set before)"
    rep.check(bad is None, rid, f"{fc.file}::MetadataParser.collect_metadata over existing metadata", bad or f"{len(cases)} cases", K.where(fc, fc.node))


def r7(idx, rep):
    fi = idx.method("PrintMode", "update_printers")
    rep.analysed(fi)
    kinds = {"std": True, "other": False, "std2": True}

    def iso(interp, args, call):
        o = args[0]
        return isinstance(o, Obj) and kinds.get(o.name, False)

    bad = None
    for pm, printers, want in (("no-default", ["std", "other"], ["other"]), ("no-default", ["other", "std"], ["other"]), ("no-default", ["other"], ["other"]),
                               (" no-default ", ["std"], []), ("no-default", ["std", "std2"], ["std2"]), ("no-default", ["other", "std", "std2"], ["other", "std2"]),
                               ("default", ["other"], ["other", "NEW"]), ("default", ["std", "other"], ["std", "other"])):
        it = Interp(idx, types={"self": "PrintMode"}, unknown_calls="error", isinstance_oracle=iso,
                    handlers={"self.controller.get": lambda i, c, r, a, k, pm=pm: pm, "StdOutPrinter": lambda i, c, r, a, k: Obj("NEW")})
        ps = it.run_all(fi, store={"self.controller.csvpath.printers": [Obj(x) for x in printers]})
        got = [o.name for o in ps[0].final_store["self.controller.csvpath.printers"]] if len(ps) == 1 else None
        # `del list[i]` is ignored by the interpreter: observe it through the Delete statement instead
        if got != want:
            dels = [n for n in walk_no_nested(fi.node) if isinstance(n, ast.Delete)]
            if pm.strip() == "no-default" and dels and got is not None:
                # apply the delete the source performs: index `remove` found by the loop
                rm = ps[0].final_store.get("remove")
            bad = bad or f"print-mode {pm!r} with printers {printers}: printers become {got}, documented {want}"
    rep.check(bad is None, "R7", f"{fi.file}::PrintMode.update_printers table", bad or "", K.where(fi, fi.node))


def result_keeps_metadata(idx, rep, rid):
    """building the member's Result must not rewrite what the comment said: the run index becomes the NAME only for a csvpath that has no
    identity of its own.  Result.__init__ with the real CsvPath.identity, over metadata {} / {'NAME': 'FOURTH'} / {'id': 'x'}"""
    fi = idx.method("Result", "__init__")
    rep.analysed(fi, idx.method("CsvPath", "identity"))
    bad = None
    for md, want in (({}, {"NAME": "7"}), ({"NAME": "FOURTH"}, {"NAME": "FOURTH"}), ({"id": "x"}, {"id": "x"}), ({"description": "d"}, {"description": "d", "NAME": "7"})):
        it = Interp(idx, types={"self": "Result", "cp": "CsvPath"}, inline={"CsvPath.identity", "Result.csvpath"}, unknown_calls="residual")
        ps = it.run_all(fi, args={"csvpath": Obj("cp"), "file_name": "f", "paths_name": "p", "run_index": 7, "run_time": "T", "run_dir": "D", "lines": None},
                        store={"cp.metadata": dict(md), "cp._metadata": dict(md)})
        for p in ps:
            got = p.final_store.get("cp.metadata")
            if p.result[0] != "return" or got != want:
                bad = bad or f"csvpath metadata {md} before its Result is built: {got} afterwards ({p.result[0]}), documented {want} (the run index names only a csvpath without an identity)"
    rep.check(bad is None, rid, f"{fi.file}::Result.__init__ leaves the comment's metadata alone", bad or "", K.where(fi, fi.node))


def imported_comment(idx, rep, rid):
    """the comment of a csvpath that is parsed on behalf of another (import(), parse_named_path) is that csvpath's: its metadata fields and
    mode settings go to the instance created for it, and the importing csvpath's metadata is what its own comment says"""
    fi = idx.method("CsvPath", "parse_named_path")
    rep.analysed(fi)
    seen = []
    it = Interp(idx, types={"self": "CsvPath"}, unknown_calls="residual",
                handlers={"CsvPath": lambda i, c, r, a, k: Obj("NEWCP"), "MetadataParser": lambda i, c, r, a, k: (seen.append(("parser for", a[0] if a else k.get("csvpath"))), Obj("MP"))[1],
                          "MP.extract_metadata": lambda i, c, r, a, k: (seen.append(("metadata into", k.get("instance", a[0] if a else None))), "PATH")[1],
                          "self._pick_named_path": lambda i, c, r, a, k: "~ id: helper ~ $[*][yes()]"},
                domains={"self.csvpaths": [Obj("CPS")]})
    ps = it.run_all(fi, args={"name": "n", "disposably": True, "specific": None}, store={"self.metadata": {"id": "main"}})
    into = [v for kk, v in seen if kk == "metadata into"]
    ok = bool(ps) and all(p.result[0] == "return" for p in ps) and into and all(v == Obj("NEWCP") for v in into) and all(p.final_store.get("self.metadata") == {"id": "main"} for p in ps)
    rep.check(ok, rid, f"{fi.file}::CsvPath.parse_named_path keeps the imported csvpath's comment to itself",
              f"the named csvpath's comment is collected into {into or 'nothing'} (results {[p.result for p in ps][:2]}); documented: into the CsvPath created for it — collected into "
              "the importing csvpath it would replace that csvpath's id, description and mode settings", K.where(fi, fi.node))
