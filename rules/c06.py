"""C06 — lines are delivered as they are in the file; headers are the first data line.

  R1 dialect wiring        every reader on a run path gets delimiter AND quotechar from its owner and forwards them to csv.reader
  R2 who may rewrite       stores/appends on matcher.line and stores to limit_collection_to: exactly replace(), append(), collect()
  R3 delivery transparent  next() yields the reader's line through limit_collection only (C01.R4/C07 tables); collect() copies
  R4 short rows            Header.to_value table: a header beyond the end of the line (by name or index) reads as None; #name and
                           #index address the same cell
  R5 headers               LineCounter.get_lines_and_headers table: headers = first non-blank record, cleaned as documented
"""
import ast
import itertools

from sa.index import AnalysisError, unparse, walk_no_nested, call_name, dotted
from sa.absint import Interp, Obj, Residual, txt
from . import common as K
from . import next_model as NM
from . import funcs_model as FM

READER_SITES = {
    # function -> (delimiter expr, quotechar expr)
    "CsvPath._next_line": ("self.delimiter", "self.quotechar"),
    "LineCounter.get_lines_and_headers": ("self.csvpaths.delimiter", "self.csvpaths.quotechar"),
    "CsvPaths.next_by_line": ("self.delimiter", "self.quotechar"),
    "CsvLineSpooler.next": ("self.result.csvpath.delimiter", "self.result.csvpath.quotechar"),
    "FileManager.get_reader": ("delimiter", "quotechar"),
    "DataFileReader.__new__": ("delimiter", "quotechar"),
}
EXEMPT_SITES = {
    "FileManager._copy_down": "raw copy of a remote file, no parsing decisions",
    "FileManager.get_named_file_reader": "convenience accessor, not on a run path",
}
REWRITERS = {"Replace", "Append"}


def run(idx, rep, tier):
    rep.explanation = (
        "Call-site argument check of every reader construction on the run paths (delimiter and quotechar both forwarded from the owner down "
        "to csv.reader); who-may-write inventory of the current line and of the collect() projection; decision table of the generator next() "
        "(the yielded object is the reader's line through limit_collection only); Header.to_value table on short/long rows by name and index; "
        "LineCounter table over record sequences with leading blanks (headers = first non-blank record) and the header cleaning table. "
        "csv module behaviour for arbitrary cell text is the trusted base.")
    rep.rule("R1", "readers on run paths get and forward both delimiter and quotechar")
    rep.rule("R2", "only replace(), append() and collect() rewrite or project the line")
    rep.rule("R3", "returned lines are the reader's lines")
    rep.rule("R4", "a header missing from a short row reads as absent; #name and #index address the same cell")
    rep.rule("R5", "headers are the cleaned cells of the first non-blank record")
    r1(idx, rep)
    r2(idx, rep)
    r3(idx, rep)
    r4(idx, rep)
    r5(idx, rep)
    # headers handed to a csvpath are its own copy: append()/reset_headers() of one member must not leak into another (C08.R2)
    from . import c08
    c08.copies(idx, rep, "R5")
    rep.rule("R6", "the file a name delivers is the content registered last under it (C11 store sequences, length <= 3)")
    from . import c11
    n, msg = c11.run_sequences(idx, 3)
    rep.check(msg is None, "R6", "csvpath/managers/files/file_manager.py::a named file delivers the content registered last", msg or f"{n} operation sequences", "csvpath/managers/files/file_manager.py")
    # the headers a run resolves #names against are this file's: a cached header row belongs to the very file (path, size, mtime) it was read from
    from . import c19, c10
    c19.r2(idx, K.as_rule(rep, "R5", keep=lambda k: "_cache_name" in k or "cache entries are tied" in k or "partial cache" in k or "header cache round trip" in k))
    # the lines a group run returns are this run's: the run directory (whose data.csv is opened for append) is re-derived for every run
    c10.run_state(idx, K.as_rule(rep, "R3"), "R3")
    rep.stats["exhaustive"] = True


def factory_table(idx, rep, rid):
    """DataFileReader.__new__ interpreted: which reader class each (path, filetype) gets, and that the caller's delimiter and quotechar
    reach its constructor unchanged"""
    new = idx.method("DataFileReader", "__new__")
    rep.analysed(new)
    cases = [
        ("d.csv", None, {}, "CsvDataReader", "d.csv", None), ("d.csv", "csv", {}, "CsvDataReader", "d.csv", None),
        ("d.xlsx", None, {}, "XlsxDataReader", "d.xlsx", None), ("d.xlsx#Sheet2", None, {}, "XlsxDataReader", "d.xlsx", "Sheet2"),
        ("d.dat", "xlsx", {}, "XlsxDataReader", "d.dat", None), ("s3://b/k.csv", None, {}, "S3DataReader", "s3://b/k.csv", None),
        ("frame", None, {"frame": Obj("DF")}, "PandasDataReader", "frame", None),
    ]
    bad = None
    for path, ft, data, wcls, wpath, wsheet in cases:
        made = []

        def ctor(name):
            def h(i, c, r, a, k):
                made.append((name, list(a), dict(k)))
                return Obj("READER")
            return h

        handlers = {n: ctor(n) for n in ("CsvDataReader", "XlsxDataReader", "S3DataReader", "PandasDataReader")}
        handlers["importlib.import_module"] = lambda i, c, r, a, k: Obj("MOD")
        store = {"DataFileReader.DATA": dict(data), "DF.__class__.__name__": "DataFrame", "DF.__class__": Obj("DFCLS"), "DFCLS.__name__": "DataFrame",
                 "MOD.PandasDataReader": Residual("PandasDataReader"), "MOD.S3DataReader": Residual("S3DataReader")}
        it = Interp(idx, types={}, handlers=handlers)
        ps = it.run_all(new, args={"cls": Residual("DataFileReader"), "path": path, "filetype": ft, "delimiter": Residual("delimiter"), "quotechar": Residual("quotechar")},
                        store=store, selfkey="DataFileReader")
        if len(ps) != 1 or len(made) != 1 or ps[0].result != ("return", Obj("READER")):
            bad = bad or f"DataFileReader({path!r}, filetype={ft!r}): {len(ps)} paths, constructions {made}, result {ps[0].result if ps else None}"
            continue
        name, a, k = made[0]
        allkw = dict(k)
        if a:
            allkw["path"] = a[0]
        sheet = allkw.get("sheet")
        okk = (name == wcls and allkw.get("path") == wpath and allkw.get("delimiter") == Residual("delimiter") and allkw.get("quotechar") == Residual("quotechar")
               and (wcls != "XlsxDataReader" or sheet == wsheet))
        if not okk:
            bad = bad or (f"DataFileReader({path!r}, filetype={ft!r}) constructs {name}({', '.join(map(txt, a))}, {', '.join(k2 + '=' + txt(v) for k2, v in k.items())}); "
                          f"documented {wcls}({wpath!r}, sheet={wsheet!r}, delimiter=delimiter, quotechar=quotechar) (both forwarded: a dropped quotechar reads quoted delimiters as cell breaks)")
    rep.check(bad is None, rid, f"{new.file}::DataFileReader.__new__ reader DataFileReader", bad or f"{len(cases)} (path, filetype) cases", K.where(new, new.node))
    return new


def r1(idx, rep):
    n = 0
    new = factory_table(idx, rep, "R1")
    for fi in idx.all_funcs():
        if fi.file.startswith("csvpath/cli/") or fi.file.startswith("csvpath/managers/ol/"):
            continue
        for c in walk_no_nested(fi.node):
            if not isinstance(c, ast.Call):
                continue
            nm = call_name(c)
            if nm not in ("DataFileReader", "get_reader", "CsvDataReader", "XlsxDataReader", "get_named_file_reader") and not (nm in ("class_",) and fi.qual == "DataFileReader.__new__"):
                continue
            if fi.file == new.file and (fi.cls is None or fi.qual == "DataFileReader.__new__"):
                continue  # the factory and its module-level helpers: decided by the interpreted table below
            own = K.owner_of(idx, fi, set(READER_SITES))
            exempt = K.owner_of(idx, fi, set(EXEMPT_SITES))
            if nm == "get_named_file_reader" and own is None:
                continue
            n += 1
            key = f"{fi.file}::{own or exempt or fi.qual} reader {nm}"
            if exempt is not None:
                rep.ok("R1", key, f"exempt: {EXEMPT_SITES[exempt]}", K.where(fi, c))
                continue
            if own is None:
                rep.fail("R1", key, f"`{unparse(c)[:100]}`: a reader is constructed at a site that is not known to forward the instance's dialect", K.where(fi, c))
                continue
            kw = K.kw_values(idx, fi, c)
            want = READER_SITES[own]
            rep.check(kw.get("delimiter") == want[0] and kw.get("quotechar") == want[1], "R1", key,
                      f"`{unparse(c)[:120]}` passes delimiter={kw.get('delimiter')}, quotechar={kw.get('quotechar')}; expected {want[0]}, {want[1]} (both: a dropped quotechar reads quoted delimiters as cell breaks)", K.where(fi, c))
    rep.floor("R1", 4, "reader constructions")
    # CsvDataReader: stores both and passes both to csv.reader
    ci = idx.cls("CsvDataReader")
    init = ci.methods["__init__"]
    # interpreted end to end: what the constructor is given is what next() hands to csv.reader (the csv defaults only when nothing is given)
    badk = None
    for dl, qc in ((None, None), (";", None), (None, "'"), ("|", "'"), ("\t", '"')):
        seen = []

        def program(it, dl=dl, qc=qc):
            it.call_function(init, {"__pos__": ["f.csv"], "delimiter": dl, "quotechar": qc}, "self")
            return it.call_function(ci.methods["next"], {"__pos__": []}, "self")

        itk = Interp(idx, types={"self": "CsvDataReader"}, unknown_calls="residual",
                     handlers={"open": lambda i, c, r, a, k: Obj("FILE"), "csv.reader": lambda i, c, r, a, k: (seen.append(dict(k)), [])[1], "reader": lambda i, c, r, a, k: (seen.append(dict(k)), [])[1],
                               "super": lambda i, c, r, a, k: Obj("SUPER"), "SUPER.__init__": lambda i, c, r, a, k: None})
        psk = itk.run_program(program, {})
        wantk = {"delimiter": dl if dl is not None else ",", "quotechar": qc if qc is not None else '"'}
        if len(psk) != 1 or psk[0].result[0] != "return" or seen != [wantk]:
            badk = badk or f"CsvDataReader(path, delimiter={dl!r}, quotechar={qc!r}).next() parses with {seen}, documented {wantk}"
    rep.check(badk is None, "R1", f"{ci.file}::CsvDataReader.__init__ keeps the dialect", badk or "5 dialects", K.where(init, init.node))
    nx = ci.methods["next"]
    # interpreted: the text stream opened on the instance's own path goes to csv.reader with the instance's dialect, and next()
    # yields csv.reader's rows, each once, in order, unchanged (no layer between the bytes and the parser, none after it)
    rows = [Obj("row0"), Obj("row1"), Obj("row2")]

    def h_open(i, c, r, a, k):
        i.record_call("open", (list(a), dict(k)))
        return Obj("FILE")

    def h_reader(i, c, r, a, k):
        i.record_call("csv.reader", (list(a), dict(k)))
        return list(rows)

    it = Interp(idx, types={"self": "CsvDataReader"}, unknown_calls="residual", handlers={"open": h_open, "csv.reader": h_reader, "reader": h_reader})
    ps = it.run_all(nx, store={})
    ok1 = ok2 = ok3 = False
    d1 = d2 = d3 = f"{len(ps)} paths"
    if len(ps) == 1:
        p = ps[0]
        opens = [v for k, kk, v in p.trace if k == "call" and kk == "open"]
        reads = [v for k, kk, v in p.trace if k == "call" and kk == "csv.reader"]
        ys = [v for k, kk, v in p.trace if k == "yield"]
        kw = {k: txt(v) for k, v in reads[0][1].items()} if len(reads) == 1 else {}
        ok1 = kw == {"delimiter": "self._delimiter", "quotechar": "self._quotechar"}
        d1 = f"{kw}"
        opened = [txt(x) for x in (opens[0][0] + list(opens[0][1].values()))][:1] if len(opens) == 1 else None
        src0 = reads[0][0][0] if len(reads) == 1 and reads[0][0] else None
        ok2 = src0 == Obj("FILE") and opened == ["self._path"]
        d2 = f"csv.reader reads `{src0}` (opened `{opened}`): a layer between the file and the parser can alter cell text"
        ok3 = ys == rows
        d3 = f"yields {ys} for csv.reader rows {rows}"
    rep.check(ok1, "R1", f"{ci.file}::CsvDataReader.next csv.reader dialect", d1, K.where(nx, nx.node))
    rep.check(ok2, "R1", f"{ci.file}::CsvDataReader.next parses the file itself", d2, K.where(nx, nx.node))
    rep.check(ok3, "R1", f"{ci.file}::CsvDataReader.next yields rows unchanged", d3, K.where(nx, nx.node))
    # CsvPaths.csvpath() hands its dialect to members (shared with C08.R2)
    fc = idx.method("CsvPaths", "csvpath")
    ctor = [n for n in walk_no_nested(fc.node) if isinstance(n, ast.Call) and call_name(n) == "CsvPath"]
    kw = K.kw_values(idx, fc, ctor[0]) if len(ctor) == 1 else {}
    rep.check(kw.get("delimiter") == "self.delimiter" and kw.get("quotechar") == "self.quotechar", "R1", f"{fc.file}::CsvPaths.csvpath member dialect", f"{kw}", K.where(fc, fc.node))


def r2(idx, rep):
    n = 0
    for fi in idx.all_funcs():
        for x in walk_no_nested(fi.node):
            hit = None
            if isinstance(x, (ast.Assign, ast.AugAssign, ast.Delete)):
                ts = x.targets if isinstance(x, (ast.Assign, ast.Delete)) else [x.target]
                for t in ts:
                    base = t.value if isinstance(t, ast.Subscript) else None
                    if base is not None and (dotted(base) or "").endswith("matcher.line"):
                        hit = ("line", x)
                    if isinstance(t, ast.Attribute) and t.attr == "limit_collection_to" and "csvpath" in unparse(t.value):
                        hit = ("limit", x)
            elif isinstance(x, ast.Call) and isinstance(x.func, ast.Attribute) and x.func.attr in ("append", "extend", "insert", "pop", "remove", "clear", "sort", "reverse") and (dotted(x.func.value) or "").endswith("matcher.line"):
                hit = ("line", x)
            if not hit:
                continue
            n += 1
            kind, node = hit
            if kind == "line":
                rep.check(fi.cls in REWRITERS, "R2", f"{fi.file}::{fi.qual} rewrites the line", f"`{unparse(node)[:80]}`: only replace() and append() may change the cells of the current line", K.where(fi, node))
            else:
                rep.check(fi.cls == "Collect", "R2", f"{fi.file}::{fi.qual} sets the projection", f"`{unparse(node)[:80]}`: only collect() may narrow the returned line", K.where(fi, node))
    rep.floor("R2", 4, "line rewriting sites")
    # matcher.line is (re)bound only by the drivers
    for s in K.attr_stores(idx, {"line", "_line"}):
        fi = s["fi"]
        tt = unparse(s["target"])
        if tt in ("self.matcher.line", "self._line", "self.line") and fi.cls in ("CsvPath", "Matcher"):
            okw = K.owner_of(idx, fi, {"CsvPath.matches", "Matcher.__init__", "Matcher.line"}) is not None
            rep.check(okw, "R2", f"{fi.file}::{fi.qual} binds the matcher's line", f"`{unparse(s['stmt'])}`", K.where(fi, s["stmt"]))


def r3(idx, rep):
    fi, rows = NM.rows(idx, nlines=2)
    rep.analysed(fi)
    bad = None
    for n, p in rows:
        for k, kk, v in p.trace:
            if k == "yield":
                nm = getattr(v, "name", getattr(v, "text", v))
                if not (isinstance(nm, str) and nm.startswith("limited(L")):
                    bad = bad or f"next() yields {nm!r}: the returned line must be the reader's line passed through limit_collection only"
    rep.check(bad is None, "R3", f"{fi.file}::CsvPath.next yields the reader's line", bad or f"{len(rows)} paths", K.where(fi, fi.node))
    # limit_collection without a projection returns the very line (tabulated in C07.R6); no str method on cells on the way
    fl = idx.method("CsvPath", "limit_collection")
    strm = [unparse(c) for c in walk_no_nested(fl.node) if isinstance(c, ast.Call) and isinstance(c.func, ast.Attribute) and c.func.attr in ("strip", "lower", "upper", "replace", "lstrip", "rstrip", "title")]
    fn = idx.method("CsvPath", "next")
    strm += [unparse(c) for c in walk_no_nested(fn.node) if isinstance(c, ast.Call) and isinstance(c.func, ast.Attribute) and c.func.attr in ("strip", "lower", "upper", "replace", "lstrip", "rstrip", "title")]
    rep.check(not strm, "R3", f"{fl.file}::delivery path applies no string method to cells", f"{strm}", K.where(fl, fl.node))
    it = Interp(idx, types={"self": "CsvPath"}, unknown_calls="residual")
    line = ["a ", ' "b"', ""]
    ps = it.run_all(fl, args={"line": line}, store={"self.limit_collection_to": [], "self." + K.names(idx)["limit"]: []})
    rep.check(len(ps) == 1 and ps[0].result == ("return", line), "R3", f"{fl.file}::limit_collection identity without collect()", f"{ps[0].result}", K.where(fl, fl.node))


def r4(idx, rep):
    fi = idx.method("Header", "to_value")
    rep.analysed(fi)
    headers = ["a", "b", "c"]
    bad = None
    n = 0
    for line in (["1", "2", "3"], ["1", "2"], ["1"], [], ["1", " 2 ", "3", "4"]):
        for name in ("a", "b", "c", "0", "1", "2", "3", "zz"):
            def hidx(interp, call, recv, a, k):
                nm = a[0]
                return headers.index(nm) if nm in headers else None

            it = Interp(idx, types={"self": "Header", FM.EU: FM.EU}, inline=FM.EU_INLINE, unknown_calls="residual",
                        handlers={"self.matcher.header_index": hidx, "math.isnan": FM._isnan},
                        domains={"self.asbool": [False]})
            st = {"self.name": name, "self.value": -9999999999, "Header.NEVER": -9999999999, "self.matcher.line": list(line)}
            ps = it.run_all(fi, args={"skip": []}, store=st)
            n += 1
            i = int(name) if name.isdecimal() else (headers.index(name) if name in headers else None)
            want = None if (i is None or i >= len(line)) else line[i].strip()
            if len(ps) != 1 or ps[0].result != ("return", want):
                bad = bad or (f"#{name} on the line {line} (headers {headers}): reads {ps[0].result[1]!r}, documented {want!r} "
                              "(a header the row is too short to hold is absent; #name and #index address the same cell)")
    rep.check(bad is None, "R4", f"{fi.file}::Header.to_value table", bad or f"{n} rows", K.where(fi, fi.node))
    rep.stats["table_rows"] = rep.stats.get("table_rows", 0) + n
    # Matcher.header_index: int passes through, numeric string → int, else the csvpath's header index; CsvPath.header_index: position or None
    header_index_sequences(idx, rep, "R4")
    header_value_sequence(idx, rep, "R4")
    reset_table(idx, rep, "R4")


def r5(idx, rep):
    fi = idx.method("LineCounter", "get_lines_and_headers")
    fc = idx.method("LineCounter", "clean_headers")
    rep.analysed(fi, fc)
    bad = None
    n = 0
    H = [" id ", "first name", "city"]
    data = [["1", "Ada", "London"], ["2", "Bob", "Paris"]]
    for lead in (0, 1, 2):
        for inner in (0, 1):
            for skip in (True, False):
                recs = [[] for _ in range(lead)] + [list(H)] + [[] for _ in range(inner)] + [list(d) for d in data]
                lm_calls = []

                def reader(i, c, r, a, k):
                    return Obj("reader")

                it = Interp(idx, types={"self": "LineCounter", "LineCounter": "LineCounter"}, inline={"LineCounter.clean_headers"}, unknown_calls="residual",
                            handlers={"LineMonitor": lambda i, c, r, a, k: Obj("lm"), "DataFileReader": reader, "reader.next": lambda i, c, r, a, k, recs=recs: [list(x) for x in recs],
                                      "lm.next_line": lambda i, c, r, a, k: i.record_call("next_line", k.get("data")), "lm.reset": lambda i, c, r, a, k: None,
                                      "lm.set_end_lines_and_reset": lambda i, c, r, a, k: i.record_call("set_end")},
                            domains={"lm.physical_end_line_number": [None], "self.csvpaths.skip_blank_lines": [skip]})
                ps = it.run_all(fi, args={"path": "f.csv"})
                n += 1
                if len(ps) != 1 or ps[0].result[0] != "return":
                    bad = bad or f"{[p.result for p in ps]}"
                    continue
                lm, hs = ps[0].result[1]
                want = ["id", "first name", "city"]
                if hs != want:
                    bad = bad or f"{lead} leading blank record(s), skip_blank_lines={skip}: headers {hs}, documented {want} (the cells of the first non-blank record, trimmed)"
                nl = [v for kk, v in ps[0].calls("next_line")]
                if nl != recs:
                    bad = bad or f"the line monitor is not advanced once per record: {len(nl)} calls for {len(recs)} records"
    rep.check(bad is None, "R5", f"{fi.file}::LineCounter.get_lines_and_headers table", bad or f"{n} files", K.where(fi, fi.node))
    bad = None
    for raw, want in ((" a ", "a"), ("a;b", "ab"), ("x,y", "xy"), ("p|q", "pq"), ("t\tu", "tu"), ("`k`", "k"), ("first name", "first name"), ("Ünï", "Ünï"), ('"q"', '"q"')):
        it = Interp(idx, types={"self": "LineCounter"}, unknown_calls="residual")
        ps = it.run_all(fc, args={"headers": [raw]})
        if len(ps) != 1 or ps[0].result != ("return", [want]):
            bad = bad or f"clean_headers([{raw!r}]) = {ps[0].result}, documented [{want!r}] (trim; remove ; , | tab and back-tick)"
    rep.check(bad is None, "R5", f"{fc.file}::LineCounter.clean_headers table", bad or "", K.where(fc, fc.node))


def header_index_sequences(idx, rep, rid):
    """CsvPath.header_index over a *sequence* of look-ups on one instance (the instance state is what __init__ leaves): the first
    column with the name (duplicate names), None for an unknown name, and always the headers of *now* — after append() added a name to
    the list in place, after the headers setter replaced the list by one of the same length (reset_headers on a new header row)"""
    fh = idx.method("CsvPath", "header_index")
    rep.analysed(fh)
    base = K.instance_store(idx, "CsvPath")

    def first(hs, nm):
        return hs.index(nm) if nm in hs else None

    scenarios = [
        ("plain", [("look", "a"), ("look", "c"), ("look", "zz"), ("look", "a")], ["a", "b", "c"]),
        ("duplicate names", [("look", "a"), ("look", "b"), ("look", "a")], ["a", "b", "a", "b"]),
        ("append in place", [("look", "a"), ("append", "d"), ("look", "d"), ("look", "a")], ["a", "b", "c"]),
        ("headers replaced, same length", [("look", "b"), ("set", ["x", "y", "b"]), ("look", "b"), ("look", "x"), ("look", "a")], ["a", "b", "c"]),
        ("no headers yet", [("look", "a")], None),
    ]
    bad = None
    n = 0
    for label, steps, hs0 in scenarios:
        def program(it, steps=steps):
            out = []
            for op, arg in steps:
                if op == "look":
                    out.append(it.call_function(fh, {"__pos__": [arg]}, "self"))
                elif op == "append":
                    it.store["self." + K.names(idx)["headers"]].append(arg)
                else:
                    # through the property setter, as reset_headers()/the reader do
                    it.assign(ast.parse("self.headers = 0").body[0].targets[0], list(arg), {"__self__": "self"})
            return out

        it = Interp(idx, types={"self": "CsvPath"}, unknown_calls="residual", inline={"CsvPath.headers"})
        st = dict(base)
        st["self." + K.names(idx)["headers"]] = None if hs0 is None else list(hs0)
        ps = it.run_program(program, st)
        n += 1
        hs = None if hs0 is None else list(hs0)
        want = []
        for op, arg in steps:
            if op == "look":
                want.append(None if not hs else first(hs, arg))
            elif op == "append":
                hs.append(arg)
            else:
                hs = list(arg)
        if len(ps) != 1 or ps[0].result != ("return", want):
            bad = bad or f"{label}: headers {hs0}, steps {steps}: header_index answers {[p.result for p in ps][:2]}, documented {want} (the first column with that name in the headers as they are now)"
    rep.check(bad is None, rid, f"{fh.file}::CsvPath.header_index sequences", bad or f"{n} scenarios", K.where(fh, fh.node))
    # the same sequences asked of the matcher (what #name goes through): an int and a numeric string are positions, a name is the first
    # column the csvpath's headers have under that name now
    fm = idx.method("Matcher", "header_index")
    frh = idx.method("ResetHeaders", "_decide_match")
    rep.analysed(fm, frh)
    mbase = K.instance_store(idx, "CsvPath", selfkey="self.csvpath")
    mbase.update({k: v for k, v in K.instance_store(idx, "Matcher").items() if not k.startswith("self.csvpath")})
    HK = "self.csvpath." + K.names(idx)["headers"]
    bad = None
    n = 0
    for label, steps, hs0 in scenarios:
        steps = list(steps) + [("look", 1), ("look", "2")]

        def mprogram(it, steps=steps):
            out = []
            for op, arg in steps:
                if op == "look":
                    out.append(it.call_function(fm, {"__pos__": [arg]}, "self"))
                elif op == "append":
                    it.store[HK].append(arg)
                else:
                    # a new header row arrives the way it does in a run: reset_headers() on the line that holds it
                    it.store["self.line"] = list(arg)
                    it.call_function(frh, {"skip": []}, "RH")
            return out

        it = Interp(idx, types={"self": "Matcher", "self.csvpath": "CsvPath", FM.EU: FM.EU, "RH": "ResetHeaders", "LineCounter": "LineCounter"}, unknown_calls="residual",
                    inline={"CsvPath.headers", "CsvPath.header_index", "LineCounter.clean_headers"} | FM.EU_INLINE, handlers={"math.isnan": FM._isnan},
                    domains={"RH.default_match()": [True]})
        st = dict(mbase)
        st.update({"RH.matcher": Obj("self"), "RH.children": [], "self.csvpath.variables": {}})
        st[HK] = None if hs0 is None else list(hs0)
        ps = it.run_program(mprogram, st)
        n += 1
        hs = None if hs0 is None else list(hs0)
        want = []
        for op, arg in steps:
            if op == "look":
                want.append(arg if isinstance(arg, int) else int(arg) if arg.isdecimal() else None if not hs else first(hs, arg))
            elif op == "append":
                hs.append(arg)
            else:
                hs = list(arg)
        if len(ps) != 1 or ps[0].result != ("return", want):
            bad = bad or (f"{label}: headers {hs0}, steps {steps}: Matcher.header_index answers {[p.result for p in ps][:2]}, documented {want} (a position as it is; a name is the first "
                          "column with that name in the headers as they are now — the column CsvPath.header_index, header_name() and the #index form address)")
    rep.check(bad is None, rid, f"{fm.file}::Matcher.header_index sequences", bad or f"{n} scenarios", K.where(fm, fm.node))


def header_value_sequence(idx, rep, rid):
    """one Header component (state as __init__ leaves it) evaluated on successive lines, with the header row replaced in between
    (reset_headers on a second header line): #name addresses the column the name has *now*"""
    fi = idx.method("Header", "to_value")
    rep.analysed(fi)
    st0 = K.instance_store(idx, "Header")
    frs = idx.method("Header", "reset")
    rep.analysed(frs)
    steps = [(["a", "b"], ["1", "2"], "b", "2"), (["a", "b"], ["3"], "b", None), (["a", "b"], ["3", "4"], "b", "4"), (["b", "a"], ["5", "6"], "b", "5"),
             (["x", "b", "y"], ["7", "8", "9"], "b", "8"), (["x", "y"], ["7", "8"], "b", None), (["x", "b"], ["7", ""], "b", ""), (["x", "b"], ["7", "9"], "b", "9")]
    state = {}

    def program(it):
        out = []
        for headers, line, name, _ in steps:
            state["headers"] = headers
            it.store["self.matcher.line"] = list(line)
            it.call_function(frs, {"__pos__": []}, "self")   # the matcher resets every component between lines
            out.append(it.call_function(fi, {"skip": []}, "self"))
        return out

    st = dict(st0)
    st.update({"self.name": "b", "Header.NEVER": -9999999999, "self.children": []})
    it = Interp(idx, types={"self": "Header", FM.EU: FM.EU}, inline=FM.EU_INLINE, unknown_calls="residual",
                handlers={"self.matcher.header_index": lambda i, c, r, a, k: (state["headers"].index(a[0]) if a[0] in state["headers"] else None), "math.isnan": FM._isnan},
                domains={"self.asbool": [False]})
    ps = it.run_program(program, st)
    want = [w for _, _, _, w in steps]
    ok = len(ps) == 1 and ps[0].result == ("return", want)
    rep.check(ok, rid, f"{fi.file}::Header.to_value over a header change", f"headers/lines {[(h, l) for h, l, _, _ in steps]}: #b reads {[p.result for p in ps][:2]}, documented {want}", K.where(fi, fi.node))


def reset_table(idx, rep, rid):
    """Matchable.reset (what the matcher calls on every expression between lines) reaches every child whatever the child holds: a component
    that answered None / '' / False on the last line is as much in need of a reset as one that answered a value"""
    fi = idx.method("Matchable", "reset")
    rep.analysed(fi)
    kids = []
    st = {}
    for n, (leaf, val, mt) in enumerate(itertools.product((True, False), (None, "", 0, "v"), (None, False, True))):
        nm = f"k{n}"
        kids.append(Obj(nm))
        st[f"{nm}.children"] = [] if leaf else [Obj(nm + "x")]
        st[f"{nm}.value"] = val
        st[f"{nm}.match"] = mt
    st["self.children"] = kids
    it = Interp(idx, types={"self": "Matchable"}, unknown_calls="residual", handlers={".reset": lambda i, c, r, a, k: i.record_call("reset", r.name)})
    ps = it.run_all(fi, store=st)
    got = [v for kk, v in ps[0].calls("reset")] if len(ps) == 1 else None
    want = [k.name for k in kids]
    miss = [f"{k} (children {st[k + '.children']}, value {st[k + '.value']!r}, match {st[k + '.match']!r})" for k in want if got is None or got.count(k) != 1]
    rep.check(len(ps) == 1 and not miss, rid, f"{fi.file}::Matchable.reset reaches every child",
              f"{len(ps)} path(s); children not reset exactly once: {miss[:3]} — such a component keeps last line's answer on the next line", K.where(fi, fi.node))


PER_LINE_STATE = {
    # class: the attributes its per-line entry points (matches / to_value and what they call) fill in — confirmed by reading; lazily
    # initialised memos that are meant to last (Reference.ref, Matchable._id) are not per-line state
    "Args": ("matched", "_args_match"),
    "Equality": ("value", "match", "DO_WHEN", "sentinel"),
    "Header": ("value", "match"),
    "Variable": ("value", "match"),
    "Reference": ("value", "match"),
    "Expression": ("match", "errors"),
    "Function": ("value", "match"),
    "First": ("match", "_my_value_or_none"),
}


def reset_clears(idx, rep, rid, classes=None):
    """what a component's per-line methods leave behind is gone after its reset(): every attribute in PER_LINE_STATE is overwritten by
    reset() (own or inherited, super() followed) whatever it held — otherwise one line's verdict, value, error flag or re-entry guard
    leaks into the next line"""
    bad = None
    n = 0
    for cls, attrs in PER_LINE_STATE.items():
        if classes is not None and cls not in classes:
            continue
        fr = idx.method(cls, "reset")
        rep.analysed(fr)
        st = {"self.children": []}
        for a in attrs:
            st[f"self.{a}"] = "<left over from the last line>"
        it = Interp(idx, types={"self": cls}, unknown_calls="residual", inline={f"{c.name}.{p_}" for c in idx.mro(cls) for p_ in c.properties})
        ps = it.run_all(fr, store=st)
        n += 1
        for p_ in ps:
            left = [a for a in attrs if p_.final_store.get(f"self.{a}") == "<left over from the last line>"]
            if p_.result[0] != "return" or left:
                bad = bad or (f"{cls}.reset() (resolved to {fr.qual}) leaves {left or p_.result} as the last line left it: the next line starts with that line's "
                              "verdict / value / argument-error flag / re-entry guard")
    rep.check(bad is None and n > 0, rid, "csvpath/matching::reset() clears the per-line state of the components", bad or f"{n} classes", "csvpath/matching/")
