"""C04 — the validity verdict is False exactly when the csvpath failed the file.

Decided clauses (see DESIGN.md §4/C04):
  R1 monotone            WMW(value): every store to is_valid/_is_valid stores the literal False, except
                         the initialiser (True) and the property setter (pass-through of its parameter)
  R2 documented causes   WMW+GRD: the set of writer sites and the guard of each equals the frozen table
  R3 not by non-executed DOM: _decide_match only under do_onmatch() and not do_frozen(); `->` right side
                         only under a true left side
  R4 reporting           TAB: failed → not is_valid, valid → is_valid  (alias folding by abstract interpretation)
  R5 aggregation         fold pattern: ResultsManager.is_valid / ResultsRegistrar.all_valid are all-quantifier
                         folds over the members' csvpath verdict; manifest keys flow from them
"""
import ast

from sa.index import AnalysisError, unparse, dotted, call_name, walk_no_nested
from sa.absint import Interp, Residual, Obj
from sa import guards as G
from . import common as K

VERDICT = {"is_valid", "_is_valid"}

# (class.func) -> description of the guard the store must have inside that function.
WRITERS = {
    "CsvPath.__init__": "init",
    "CsvPath.is_valid.setter": "setter",
    "Fail._decide_match": "always",
    "FailAll._decide_match": "always",
    "Stopper._stop_me": "absint",
    "ErrorHandler._handle_if": "absint",
    "Function.matches": "formula",
    "CsvPaths.next_paths": "formula",
    "CsvPaths.next_by_line": "formula",
}


def fold_is_all(fi, member_pred):
    """does the function compute `all(member_pred(r) for r in <iter>)`?  Accepted idioms:
         for r in X: if not P(r): return False  ... return True
         return all(P(r) for r in X)
       returns (ok, detail)"""
    body = [s for s in fi.node.body if not (isinstance(s, ast.Expr) and isinstance(s.value, ast.Constant))]
    # idiom 2
    for st in body:
        if isinstance(st, ast.Return) and isinstance(st.value, ast.Call) and call_name(st.value) == "all" and st.value.args:
            ge = st.value.args[0]
            if isinstance(ge, (ast.GeneratorExp, ast.ListComp)) and len(ge.generators) == 1 and not ge.generators[0].ifs:
                var = unparse(ge.generators[0].target)
                return member_pred(ge.elt, var, positive=True)
    # idiom 1
    loops = [s for s in body if isinstance(s, ast.For)]
    if len(loops) != 1:
        return False, "no single for-loop fold"
    lp = loops[0]
    var = unparse(lp.target)
    # the loop body must be exactly: if <neg member pred>: return False   (logging allowed)
    ifs = [s for s in lp.body if not _is_logging(s)]
    if len(ifs) != 1 or not isinstance(ifs[0], ast.If) or ifs[0].orelse:
        return False, "loop body is not a single negative test"
    test = ifs[0].test
    rb = [s for s in ifs[0].body if not _is_logging(s)]
    if len(rb) != 1 or not isinstance(rb[0], ast.Return) or not K.is_const(rb[0].value, False):
        return False, "negative branch does not `return False`"
    after = body[body.index(lp) + 1:]
    after = [s for s in after if not _is_logging(s)]
    if len(after) != 1 or not isinstance(after[0], ast.Return) or not K.is_const(after[0].value, True):
        return False, "fold does not end in `return True`"
    if lp.orelse:
        return False, "loop has an else branch"
    if isinstance(test, ast.UnaryOp) and isinstance(test.op, ast.Not):
        return member_pred(test.operand, var, positive=True)
    if isinstance(test, ast.Compare) and len(test.ops) == 1 and isinstance(test.ops[0], ast.Is) and K.is_const(test.comparators[0], False):
        return member_pred(test.left, var, positive=True)
    return False, f"unrecognised member test {unparse(test)}"


def _is_logging(st):
    if isinstance(st, ast.Expr) and isinstance(st.value, ast.Call):
        d = dotted(st.value.func) or ""
        return ".logger." in "." + d or d.startswith("logging.")
    return False


def run(idx, rep, tier):
    rep.explanation = (
        "Static who-may-write / guard / fold analysis of the validity verdict: R1 every store to is_valid is the literal "
        "False except the initialiser and the property setter (monotone); R2 the writer sites and their guards equal the "
        "frozen table of documented causes (guards decided by truth-table equivalence or by exhaustive abstract "
        "interpretation of the writer over its flags); R3 verdict-setting components run only under do_onmatch/not frozen "
        "and a `->` right side only under a true left side; R4 failed()/valid() alias table; R5 both run-level "
        "aggregations are all-quantifier folds over the members' csvpath verdict and feed the manifest keys. "
        "Decides these structural necessary conditions, not the reachability of fail() on particular lines.")
    rep.rule("R1", "every store to is_valid/_is_valid is literal False except CsvPath.__init__ (True) and the setter (pass-through)")
    rep.rule("R2", "writer set and guards equal the frozen table of documented causes")
    rep.rule("R3", "verdict setters are reached only through executed branches")
    rep.rule("R4", "failed()/valid() report not is_valid / is_valid")
    rep.rule("R5", "results_manager.is_valid and manifest all_valid are conjunctions over the members' csvpath.is_valid")

    # ------------------------------------------------------------------ R1 + R2 writer inventory
    stores = K.attr_stores(idx, VERDICT)
    refl = K.reflection_uses(idx, VERDICT)
    for fi, n in refl:
        rep.fail("R1", f"reflection {fi.key()}", f"setattr/__dict__ store that may write the verdict: {unparse(n)}", K.where(fi, n))
    seen_writers = set()
    via_helper = set()
    helper_writers = []
    for s in stores:
        fi, t, v, st = s["fi"], s["target"], s["value"], s["stmt"]
        rep.analysed(fi)
        qual = fi.qual
        if fi.name == "is_valid" and any(isinstance(d, ast.Attribute) and d.attr == "setter" for d in fi.node.decorator_list):
            qual = f"{fi.cls}.is_valid.setter"
        key = f"{fi.file}::{qual} store {unparse(t)}"
        seen_writers.add(qual)
        v = K.resolve_const(idx, fi, v) if isinstance(v, ast.AST) and not isinstance(v, ast.AugAssign) else v
        if qual == "CsvPath.__init__":
            rep.check(K.is_const(v, True) and unparse(t) == "self._is_valid", "R1", key, f"initialiser stores {unparse(v)}", K.where(fi, st))
            continue
        if qual.endswith(".is_valid.setter") and fi.cls == "CsvPath":
            params = [a.arg for a in fi.node.args.args]
            okv = isinstance(v, ast.Name) and len(params) == 2 and v.id == params[1]
            rep.check(okv, "R1", key, f"setter stores {unparse(v)} (must pass its parameter through unchanged)", K.where(fi, st))
            # the setter body must be just that store (no conditional revival)
            body = [x for x in fi.node.body if not (isinstance(x, ast.Expr) and isinstance(x.value, ast.Constant)) and not _is_logging(x)]
            rep.check(len(body) == 1, "R1", f"{fi.file}::{qual} body", "setter has extra statements", K.where(fi, fi.node))
            continue
        is_false = isinstance(v, ast.AST) and K.is_const(v, False)
        rep.check(is_false, "R1", key,
                  f"stores `{unparse(v) if isinstance(v, ast.AST) else v}` to the verdict; only the literal False may be stored after construction (monotone)",
                  K.where(fi, st))
        if qual not in WRITERS:
            own = K.owners_of(idx, fi, set(WRITERS))
            if own:
                # a private helper that stores the verdict on behalf of documented writers (and of nobody else)
                seen_writers |= own
                via_helper |= own
            else:
                helper_writers.append(s)
    rep.floor("R1", 9, "verdict stores")

    # unknown writers: a helper whose whole effect is `verdict = False` is followed to its callers,
    # anything else is an undocumented cause
    for s in helper_writers:
        fi, st = s["fi"], s["stmt"]
        rep.fail("R2", f"{fi.file}::{fi.qual} undocumented-writer",
                 f"`{unparse(st)}` writes the verdict in a function that is not one of the documented causes "
                 f"(fail, fail_all, fail_and_stop, error policy 'fail', validation-mode fail, the fail-all signal)", K.where(fi, st))
    for q in WRITERS:
        if q not in seen_writers:
            rep.fail("R2", f"{q} missing-writer", f"documented cause {q} no longer stores the verdict", q)

    # fail(): whatever else it does, it leaves the verdict False on every path (decided by interpretation: holds through helpers too)
    ffail = idx.method("Fail", "_decide_match")
    rep.analysed(ffail)
    psf = Interp(idx, types={"self": "Fail"}, unknown_calls="residual", handlers={"self.default_match": lambda i, c, r, a, k: "DEFAULT"}).run_all(
        ffail, args={"skip": []}, store={"self.matcher.csvpath.is_valid": True})
    okf = bool(psf) and all(p.result[0] == "return" and p.final_store.get("self.matcher.csvpath.is_valid") is False for p in psf)
    rep.check(okf, "R2", f"{ffail.file}::Fail._decide_match table", f"{[(p.result[0], p.final_store.get('self.matcher.csvpath.is_valid')) for p in psf][:3]}; documented: the verdict is False after fail() on every path", K.where(ffail, ffail.node))
    # guards of each documented writer
    for s in stores:
        fi, t, v, st = s["fi"], s["target"], s["value"], s["stmt"]
        q = fi.qual
        kind = WRITERS.get(q)
        if kind == "always":
            g = K.guard_of(fi, st)
            rep.check(g == G.TRUE, "R2", f"{fi.file}::{q} guard", f"verdict store must be unconditional in {q}; found guard {G.show(g)}", K.where(fi, st))
            rep.check(K.resolved_text(fi, t) == "self.matcher.csvpath.is_valid", "R2", f"{fi.file}::{q} target", f"stores to {K.resolved_text(fi, t)}", K.where(fi, st))
        elif kind == "formula":
            g = K.guard_of(fi, st)
            if q == "Function.matches":
                # decided by the interpreted Function.matches table below (frozen / onmatch / fail aspects): robust to local aliases
                pass
            else:
                # CsvPaths.next_paths / next_by_line: under the fail-all signal only.  lower ⇒ guard ⇒ upper:
                # never without the signal; always with it unless the run is already shutting down (stop-all)
                g2 = _drop_atoms(g, lambda a: a.startswith("loop:") or a.startswith("except:") or "paths" in a)
                up, _ = K.equiv(G.f_and(g2, K.formula("self._fail_all")), g2)
                lo, cex = K.equiv(G.f_and(K.formula("self._fail_all and not self._stop_all"), g2), K.formula("self._fail_all and not self._stop_all"))
                rep.check(up and lo, "R2", f"{fi.file}::{q} guard",
                          f"guard {G.show(g2)}: must imply self._fail_all ({up}) and be implied by self._fail_all ∧ ¬self._stop_all ({lo}); {cex}", K.where(fi, st))
                tgt = unparse(t)
                rep.check(tgt in ("csvpath.is_valid", "self.current_matcher.is_valid"), "R2", f"{fi.file}::{q} target",
                          f"stores to {tgt}: must be the member being driven", K.where(fi, st))

    # Function.matches: the verdict is stored False exactly on an argument mismatch under validation-mode fail, on a path that is neither
    # frozen nor an onmatch miss (C05's exhaustive table of the function)
    from . import c05 as _c05
    _c05.function_matches_table(idx, K.as_rule(rep, "R2", keep=lambda k: k.endswith(" fail") or k.endswith(" frozen") or k.endswith(" onmatch") or k.endswith(" deterministic")), "R2")
    _r2_stop_me(idx, rep)
    _r2_handle_if(idx, rep)
    _r2_signal(idx, rep)
    # the per-csvpath override of 'fail': validation-mode tokens -> fail_on_validation_errors
    from . import valmode
    valmode.check(idx, rep, "R2", ["fail"])
    _r2_do_i_fail(idx, rep)
    # an error is *handled* (and so can fail the run) only when the matcher hands the line's collected errors over: every exit of
    # Matcher.matches passes clear_errors (matcher table, clear-errors aspect)
    from . import matcher_model as MM
    fm, rows = MM.run_model(idx, max_components=2, with_memo=False)
    badc = None
    for row in rows:
        for aspect, ok, detail in MM.judge(row):
            if aspect == "clear-errors" and not ok:
                badc = badc or detail
    rep.check(badc is None, "R2", f"{fm.file}::Matcher.matches table clear-errors", badc or f"{len(rows)} rows", K.where(fm, fm.node))

    # an exception that leaves a member of a group is handled with that member as the handler's csvpath: its own policy decides and it is the
    # member that 'fail' marks invalid (the serial drivers' table, handler-wiring aspect)
    from . import c08 as _c08
    _c08.serial(idx, rep, "R2", aspects=("handler-wiring",))

    # ------------------------------------------------------------------ R3
    _r3(idx, rep)
    _r3_frozen(idx, rep)
    # ------------------------------------------------------------------ R4
    _r4(idx, rep)
    # ------------------------------------------------------------------ R5
    _r5(idx, rep)


def _r3_frozen(idx, rep):
    """Function.matches skips a component on a frozen path unless it overrides frozen: fail() and fail_all() must override, and the
    two places that lift the freeze for a last()/fail() consequence must put back the state they found — otherwise a fail_and_stop()
    (or any other component) standing after `last() -> …` on the final line is silently skipped and the verdict stays True"""
    for cls in ("Fail", "FailAll"):
        fr, ok, d = K.returns(idx, cls, "override_frozen", True)
        rep.analysed(fr)
        rep.check(ok, "R3", f"csvpath/matching/functions/validity/fail.py::{cls} runs on a frozen path",
                  f"{cls}.override_frozen resolves to {fr.qual} and {d}: on a frozen path (final line after last() fired, blank last line) Function.matches skips the component, so the verdict is not set", K.where(fr, fr.node))
    from . import c13
    c13.frozen_checks(idx, rep, "R3")


def _drop_atoms(f, pred):
    """existentially forget atoms that do not concern the rule (loop membership, the enclosing handler,
    argument-validation prologue)"""
    return G.forget(f, pred)


def _r2_stop_me(idx, rep):
    """Stopper._stop_me: verdict False iff stop() was called on this path and name == 'fail_and_stop'"""
    fi = idx.method("Stopper", "_stop_me")
    rep.analysed(fi)
    names = ["stop", "fail_and_stop", "stop_all"]

    def child_matches(interp, call, recv, args, kwargs):
        return interp.choose("child.matches", [True, False, None], memo=False)

    def stop(interp, call, recv, args, kwargs):
        interp.record_call("csvpath.stop")
        return None

    rows = 0
    for nchildren in (0, 1, 2):
        it = Interp(idx, types={"self": "Stopper"},
                    domains={"self.name": names},
                    handlers={"self.children[0].matches": child_matches, "self.matcher.csvpath.stop": stop})
        store = {"self.children": [Obj(f"c{i}") for i in range(nchildren)]}
        it.handlers["c0.matches"] = child_matches
        paths = it.run_all(fi, store=store)
        for p in paths:
            rows += 1
            stopped = bool(p.calls("csvpath.stop"))
            name = p.atom("self.name")
            sets = p.sets("self.matcher.csvpath.is_valid")
            want = stopped and name == "fail_and_stop"
            got = bool(sets)
            good = (got == want) and all(v is False for v in sets)
            # and stop() is called iff no child or the child matched True
            cm = p.atom("child.matches", "nochild")
            want_stop = (nchildren != 1) or cm is True
            key = f"{fi.file}::Stopper._stop_me table children={nchildren} name={name} child={cm}"
            rep.check(good, "R2", key, f"verdict stores {sets} but stop-called={stopped}, name={name}: verdict must become False exactly when the stop fired and the function is fail_and_stop", K.where(fi, fi.node))
            rep.check(stopped == want_stop, "R2", key + " stop", f"stop() called={stopped}, expected {want_stop}", K.where(fi, fi.node))
            rep.sample({"rule": "R2", "fn": "Stopper._stop_me", "children": nchildren, **p.summary()}) if rows < 4 else None
    rep.stats["table_rows"] = rep.stats.get("table_rows", 0) + rows
    # who calls _stop_me: the _decide_match of Stop / StopAll only, unconditionally first
    for ci_name in sorted(idx.subclasses("Stopper")):
        ci = idx.cls(ci_name)
        dm = ci.methods.get("_decide_match")
        if dm is None:
            continue
        rep.analysed(dm)
        calls = [n for n in walk_no_nested(dm.node) if isinstance(n, ast.Call) and call_name(n) == "_stop_me"]
        rep.check(len(calls) == 1 and K.guard_of(dm, calls[0]) == G.TRUE, "R2", f"{dm.file}::{dm.qual} calls _stop_me once, unconditionally",
                  f"found {len(calls)} call(s)", K.where(dm, dm.node))


def _r2_handle_if(idx, rep):
    """ErrorHandler._handle_if: verdict False iff do_i_fail() is True and a csvpath is present"""
    fi = idx.method("ErrorHandler", "_handle_if")
    rep.analysed(fi)
    paths = handle_if_paths(idx, fi)
    rows = 0
    for p in paths:
        rows += 1
        if p.atom("error is None"):
            continue
        sets = p.sets("self._csvpath.is_valid")
        want = p.atom("self._ecm.do_i_fail()") is True and bool(p.atom("self._csvpath"))
        good = (bool(sets) == want) and all(v is False for v in sets)
        if not good:
            rep.fail("R2", f"{fi.file}::ErrorHandler._handle_if verdict",
                     f"on path {p.summary()['choices']} the verdict stores are {sets}; expected a store of False exactly when do_i_fail() is True and a csvpath is attached",
                     K.where(fi, fi.node))
            break
    else:
        rep.ok("R2", f"{fi.file}::ErrorHandler._handle_if verdict", f"{rows} decision paths", K.where(fi, fi.node))
    rep.stats["table_rows"] = rep.stats.get("table_rows", 0) + rows


def handle_if_paths(idx, fi):
    """eager enumeration: 3^4 flag answers x collect/quiet in the policy x csvpath attached or not (+ the None error)"""
    flags = ["self._ecm.do_i_stop()", "self._ecm.do_i_fail()", "self._ecm.do_i_print()", "self._ecm.do_i_raise()"]

    def collect(interp, call, recv, args, kwargs):
        interp.record_call("collect_error", args)

    def prnt(interp, call, recv, args, kwargs):
        interp.record_call("csvpath.print", args)

    it = Interp(idx, types={"self": "ErrorHandler"}, inline_all={"ErrorHandler"},
                handlers={"self._error_collector.collect_error": collect, "self._csvpath.print": prnt},
                ignore=("logger.", "logging.", "time.", "warnings."))
    eager = {f: [True, False, None] for f in flags}
    eager["self._csvpath"] = [Obj("self._csvpath"), None]
    eager["__collect__"] = [True, False]
    eager["__quiet__"] = [False, True]
    consts = {f"OnError.{m}.value": m.lower() for m in ("RAISE", "QUIET", "COLLECT", "STOP", "FAIL", "PRINT")}
    out = []
    import itertools
    keys = list(eager)
    for vals in itertools.product(*[eager[k] for k in keys]):
        cfg = dict(zip(keys, vals))
        policy = (["collect"] if cfg["__collect__"] else []) + (["quiet"] if cfg["__quiet__"] else [])
        st = dict(consts)
        st.update({k: v for k, v in cfg.items() if not k.startswith("__")})
        for p in it.run_all(fi, args={"policy": policy, "error": Obj("error")}, store=st):
            p.cfg = cfg
            # legacy accessors used by the judges
            p.choices = [(k, v) for k, v in cfg.items()] + [("OnError.COLLECT.value in policy", cfg["__collect__"])] + list(p.choices)
            out.append(p)
    # the None error
    for p in it.run_all(fi, args={"policy": [], "error": None}, store=dict(consts)):
        p.choices = [("error is None", True)] + list(p.choices)
        out.append(p)
    return out


def _r2_signal(idx, rep):
    """the fail-all signal is raised only by FailAll._decide_match (→ CsvPaths.fail_all) and reset by the run resets"""
    sites = K.calls_named(idx, {"fail_all"})
    for s in sites:
        fi = s["fi"]
        okc = K.owner_of(idx, fi, {"FailAll._decide_match"}) is not None
        rep.check(okc, "R2", f"{fi.file}::{fi.qual} calls fail_all", "fail_all() may be called only from the fail_all() match function", K.where(fi, s["call"]))
    # FailAll._decide_match: the own verdict always; the group signal exactly when the csvpath belongs to a CsvPaths
    ff = idx.method("FailAll", "_decide_match")
    rep.analysed(ff)
    bad = None
    for owner in (None, Obj("cps")):
        it = Interp(idx, types={"self": "FailAll"}, unknown_calls="residual",
                    handlers={"cps.fail_all": lambda i, c, r, a, k: i.record_call("fail_all"), "self.default_match": lambda i, c, r, a, k: "DEFAULT"})
        ps = it.run_all(ff, args={"skip": []}, store={"self.matcher.csvpath.csvpaths": owner, "self.matcher.csvpath.is_valid": True})
        for p in ps:
            sig = bool(p.calls("fail_all"))
            if p.result[0] != "return" or p.final_store.get("self.matcher.csvpath.is_valid") is not False or sig != (owner is not None):
                bad = bad or (f"csvpath {'in a group' if owner is not None else 'standalone'}: ends {p.result[0]}, is_valid={p.final_store.get('self.matcher.csvpath.is_valid')!r}, "
                              f"group signalled={sig}; documented: verdict False, signal iff the csvpath has a CsvPaths")
    rep.check(bad is None, "R2", f"{ff.file}::FailAll._decide_match table", bad or "", K.where(ff, ff.node))
    st = K.attr_stores(idx, {"_fail_all"})
    for s in st:
        fi, v = s["fi"], s["value"]
        if K.owner_of(idx, fi, {"CsvPaths.fail_all"}) is not None:
            rep.check(K.is_const(v, True), "R2", f"{fi.file}::{fi.qual} store _fail_all", f"stores {unparse(v)}", K.where(fi, s["stmt"]))
        else:
            rep.check(K.is_const(v, False) and K.owner_of(idx, fi, {"CsvPaths.__init__", "CsvPaths.clear_run_coordination"}) is not None, "R2",
                      f"{fi.file}::{fi.qual} store _fail_all", f"stores {unparse(v)} in {fi.qual}", K.where(fi, s["stmt"]))


def _r2_do_i_fail(idx, rep):
    """ErrorCommsManager.do_i_fail: the csvpath's override when it is not None, else 'fail' in the policy"""
    fi = idx.method("ErrorCommsManager", "do_i_fail")
    rep.analysed(fi)
    ok, detail = do_i_table(idx, fi, "fail_on_validation_errors", "FAIL")
    rep.check(ok, "R2", f"{fi.file}::ErrorCommsManager.do_i_fail table", detail, K.where(fi, fi.node))
    # … and 'the policy' is the csvpath's own errors policy whenever there is a csvpath (its 'fail' decides its verdict, not the group's)
    fc = idx.method("ErrorCommsManager", "__init__")
    rep.analysed(fc)
    okp = True
    for cp, cps, want in ((Obj("cp"), None, "cp.config.csvpath_errors_policy"), (None, Obj("cps"), "cps.config.csvpaths_errors_policy"), (Obj("cp"), Obj("cps"), "cp.config.csvpath_errors_policy")):
        _, ps = K.sym_result(idx, "ErrorCommsManager", "__init__", args={"csvpath": cp, "csvpaths": cps})
        pol = ps[0].final_store.get("self._policy") if len(ps) == 1 else None
        okp = okp and isinstance(pol, Residual) and pol.text == want
    rep.check(okp, "R2", f"{fc.file}::ErrorCommsManager.__init__ policy source", "the 'fail' token is looked up in a policy other than the owner's (the csvpath's when there is one)", K.where(fc, fc.node))


def do_i_table(idx, fi, override_prop, member):
    """decision table of one ErrorCommsManager.do_i_* method (eager over csvpath presence x override value)"""
    key = f"self._csvpath.{override_prop}"
    it = Interp(idx, types={"self": "ErrorCommsManager"})
    st = {f"OnError.{m}.value": m.lower() for m in ("RAISE", "QUIET", "COLLECT", "STOP", "FAIL", "PRINT")}
    paths = it.run_eager(fi, {"self._csvpath": [Obj("self._csvpath"), None], key: [True, False, None], "self._policy": [[member.lower()], ["other"], []]}, store=st)
    for p in paths:
        cp = p.cfg["self._csvpath"]
        ov = p.cfg[key]
        kind, v = p.result
        if kind != "return":
            return False, f"ends in {kind} {v}"
        if cp is not None and ov is not None:
            if v is not ov:
                return False, f"with the validation-mode override {ov!r} returns {v!r}; the csvpath's own setting must win"
        else:
            want = member.lower() in p.cfg["self._policy"]
            if v is not want:
                return False, f"without an override and policy {p.cfg['self._policy']} returns {v!r}; expected `'{member.lower()}' in policy` = {want}"
    return True, f"{len(paths)} rows"


def _r3(idx, rep):
    # Function.matches: the call of _decide_match is under do_onmatch() and not do_frozen()
    fi = idx.method("Function", "matches")
    rep.analysed(fi)
    calls = [n for n in walk_no_nested(fi.node) if isinstance(n, ast.Call) and call_name(n) == "_decide_match"]
    rep.check(len(calls) == 1, "R3", f"{fi.file}::Function.matches single _decide_match call", f"{len(calls)} calls", K.where(fi, fi.node))
    for c in calls:
        g = K.guard_of(fi, c)
        need = K.formula("(not self.do_frozen()) and self.do_onmatch() and self.match is None")
        at = G.atoms(g)
        # g must imply need
        ok, cex = K.equiv(G.f_and(g, need), g)
        rep.check(ok, "R3", f"{fi.file}::Function.matches _decide_match guard", f"guard {G.show(g)} does not imply ¬do_frozen ∧ do_onmatch ∧ match is None; {cex}", K.where(fi, c))
    # do_frozen: frozen unless override
    # Equality._do_when: right.matches only under left.matches(...) is True
    fe = idx.method("Equality", "_do_when")
    rep.analysed(fe)
    rcalls = [n for n in walk_no_nested(fe.node) if isinstance(n, ast.Call) and call_name(n) == "matches" and (K.call_receiver(n) or "").endswith("right")]
    rep.check(len(rcalls) >= 1, "R3", f"{fe.file}::Equality._do_when evaluates right", f"{len(rcalls)} call(s) of right.matches", K.where(fe, fe.node))
    for c in rcalls:
        g = K.guard_of(fe, c)
        ats = G.atoms(g)
        # some atom testing the left vote being True must be implied
        subst = _local_aliases(fe.node)
        pos = _positive_atoms(g)
        okl = any(_is_left_true(a, subst) for a in pos)
        rep.check(okl, "R3", f"{fe.file}::Equality._do_when right side guard",
                  f"right.matches(...) runs under {G.show(g)}, which does not require the left side to have matched (is True)", K.where(fe, c))


def _local_aliases(fn):
    out = {}
    for n in walk_no_nested(fn):
        if isinstance(n, ast.Assign) and len(n.targets) == 1 and isinstance(n.targets[0], ast.Name):
            out.setdefault(n.targets[0].id, []).append(n.value)
    return {k: v[0] for k, v in out.items() if len(v) == 1}


def _positive_atoms(f):
    if f[0] == "atom":
        return {f[1]}
    if f[0] == "and":
        s = set()
        for x in f[1:]:
            s |= _positive_atoms(x)
        return s
    return set()


def _is_left_true(atom, subst):
    # 'b is True' with b = self.left.matches(skip=skip)   or 'self.left.matches(skip=skip) is True'
    if not atom.endswith(" is True"):
        return False
    lhs = atom[: -len(" is True")]
    if lhs in subst:
        lhs = unparse(subst[lhs])
    return "left.matches(" in lhs


def _r4(idx, rep):
    fi = idx.method("Failed", "_decide_match")
    rep.analysed(fi)
    from .aliases import factory_aliases

    names = factory_aliases(idx).get("Failed")
    if not names:
        raise AnalysisError("no aliases of Failed found in FunctionFactory")
    want = {"failed": "not self.matcher.csvpath.is_valid", "valid": "self.matcher.csvpath.is_valid"}
    for nm in sorted(names):
        it = Interp(idx, types={"self": "Failed"}, domains={"self.name": [nm]}, unknown_calls="residual")
        paths = it.run_all(fi)
        sets = [p.sets("self.match") for p in paths]
        got = None
        if len(paths) == 1 and len(sets[0]) == 1:
            v = sets[0][0]
            got = v.text if isinstance(v, Residual) else repr(v)
        # failed() and valid() have their documented polarity; any further name of the same class must still be one of the two readings
        # of the verdict (a new alias such as invalid() is not a new cause or a new meaning)
        okn = got == want[nm] if nm in want else got in set(want.values())
        rep.check(okn, "R4", f"{fi.file}::Failed alias {nm}",
                  f"alias {nm} sets match to `{got}`, documented: `{want.get(nm, ' or '.join(sorted(want.values())))}`", K.where(fi, fi.node))
    rep.check(set(want) <= set(names), "R4", f"{fi.file}::Failed names", f"failed() / valid() are registered as {sorted(names)}", K.where(fi, fi.node))
    rep.floor("R4", 2, "aliases of Failed")


def _r5(idx, rep):
    # member predicate of ResultsManager.is_valid: r.is_valid (the Result property) ; of all_valid: r.csvpath.is_valid
    def pred_factory(accepted):
        def member_pred(expr, var, positive):
            t = unparse(expr)
            if t in [a.format(v=var) for a in accepted]:
                return True, t
            return False, f"member predicate `{t}` is not the member's verdict ({accepted})"
        return member_pred

    fm = idx.method("ResultsManager", "is_valid")
    rep.analysed(fm)
    # interpreted over every list of <= 3 members (with and without collected lines) handed out by get_named_results(name)
    seen_names = []

    def _named(i, c, r, a, k):
        seen_names.append(a[0] if a else k.get("name"))
        return None

    _, ok, d, _ = K.fold_table(idx, "ResultsManager", "is_valid", "is_valid", source_handler="self.get_named_results", args={"name": "NAME"})
    rep.check(ok, "R5", f"{fm.file}::ResultsManager.is_valid fold", f"not a conjunction over the members' verdicts: {d}", K.where(fm, fm.node))
    it = Interp(idx, types={"self": "ResultsManager"}, unknown_calls="residual", handlers={"self.get_named_results": lambda i, c, r, a, k: (seen_names.append(a[0] if a else k.get("name")), [])[1]})
    it.run_all(fm, args={"name": "NAME"})
    rep.check(seen_names == ["NAME"], "R5", f"{fm.file}::ResultsManager.is_valid source", f"asks for the results of {seen_names}, expected the group it was asked about", K.where(fm, fm.node))

    fr = idx.method("ResultsRegistrar", "all_valid")
    rep.analysed(fr)
    _, ok, d, _ = K.fold_table(idx, "ResultsRegistrar", "all_valid", "csvpath.is_valid")
    rep.check(ok, "R5", f"{fr.file}::ResultsRegistrar.all_valid fold", f"not a conjunction over the members' verdicts: {d}", K.where(fr, fr.node))

    # Result.is_valid: every return is the csvpath verdict, the saved runtime verdict, or False when there is no csvpath
    fv = idx.method("Result", "is_valid")
    rep.analysed(fv)
    it = Interp(idx, types={"self": "Result"}, unknown_calls="error")
    paths = it.run_all(fv)
    for p in paths:
        kind, v = p.result
        has_cp = p.atom("self._csvpath")
        started = p.atom("not (self._csvpath.run_started_at is None)")
        rt = p.atom("self._runtime_data")
        vt = v.text if isinstance(v, Residual) else v
        key = f"{fv.file}::Result.is_valid path csvpath={has_cp} started={started} runtime={bool(rt)}"
        if has_cp and started:
            rep.check(vt == "self._csvpath.is_valid", "R5", key, f"returns {vt}; a started member must report its csvpath's verdict", K.where(fv, fv.node))
        elif has_cp and not rt:
            rep.check(vt == "self._csvpath.is_valid", "R5", key,
                      f"returns {vt} for a member that holds a csvpath which never started and has no saved runtime data; its verdict is csvpath.is_valid (True unless failed)", K.where(fv, fv.node))
        else:
            rep.check(vt in ("self._csvpath.is_valid", "self._runtime_data['valid']", False), "R5", key, f"returns {vt}", K.where(fv, fv.node))
    rep.stats["table_rows"] = rep.stats.get("table_rows", 0) + len(paths)

    # manifest wiring: ResultsRegistrar.register_complete: mdata.all_valid = self.all_valid(); metadata_update m['all_valid'] = mdata.all_valid
    frc = idx.method("ResultsRegistrar", "register_complete")
    rep.analysed(frc)
    w = [(unparse(t), unparse(v)) for t, v, st in __import__("sa.index", fromlist=["stores_in"]).stores_in(frc.node) if isinstance(t, ast.Attribute) and t.attr == "all_valid"]
    rep.check(w == [("mdata.all_valid", "self.all_valid()")], "R5", f"{frc.file}::ResultsRegistrar.register_complete all_valid", f"stores {w}", K.where(frc, frc.node))
    fmu = idx.method("ResultsRegistrar", "metadata_update")
    rep.analysed(fmu)
    w = []
    for t, v, st in __import__("sa.index", fromlist=["stores_in"]).stores_in(fmu.node):
        if isinstance(t, ast.Subscript) and isinstance(t.slice, ast.Constant) and t.slice.value == "all_valid":
            w.append(unparse(v))
    rep.check(w == ["mdata.all_valid"], "R5", f"{fmu.file}::ResultsRegistrar.metadata_update m['all_valid']", f"stores {w}", K.where(fmu, fmu.node))
    # member manifest: ResultRegistrar: mdata.valid = self.result.csvpath.is_valid
    for ci in idx.classes.get("ResultRegistrar", []):
        for mname, m in ci.methods.items():
            for t, v, st in __import__("sa.index", fromlist=["stores_in"]).stores_in(m.node):
                if isinstance(t, ast.Attribute) and t.attr == "valid" and unparse(t.value) == "mdata":
                    rep.analysed(m)
                    rep.check(unparse(v) == "self.result.csvpath.is_valid", "R5", f"{m.file}::{m.qual} mdata.valid", f"stores {unparse(v)}", K.where(m, st))
