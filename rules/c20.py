"""C20 — data and values flow between csvpaths as declared.

  R1 predecessor wiring   CsvPaths._load_csvpath decision table: under source-mode preceding the parsed file is the preceding
                          result's data_file_path (and it is recorded); breadth-first runs refuse; otherwise the named file
  R2 predecessor complete in the serial methods member i is saved (spooler closed) before member i+1 is loaded, and a member is
                          added to the results only after it was loaded (run-method tables)
  R3 reference provenance Reference._variable_value / _get_value_from_results / get_results tables; ResultsManager.get_variables
                          reflects the members' current variables on every call; get_last_named_result is the last member
  R4 :last resolution     = C10.R3/R5
  R5 results reference    data_file_for_reference on a model archive: <archive>/<group>/<run>/<member>/data.csv for literal and :last forms
"""
import ast

from sa.index import AnalysisError, unparse, walk_no_nested, call_name
from sa.absint import Interp, Obj, Residual
from . import common as K
from . import c08, c10


class _Proxy:
    def __init__(self, rep, rid):
        self.rep = rep
        self.rid = rid
        self.stats = rep.stats

    def __getattr__(self, n):
        return getattr(self.rep, n)

    def check(self, cond, rid, key, detail="", where=""):
        return self.rep.check(cond, self.rid, key, detail, where)


def run(idx, rep, tier):
    rep.explanation = (
        "Decision table of CsvPaths._load_csvpath (source-mode preceding x breadth-first x predecessor present x reference file name); the "
        "serial run-method tables (save of member i precedes load of member i+1; results are added after loading); tables of the reference "
        "resolvers on concrete result sets (variables with and without tracking keys, header columns, member selection) including a "
        "staleness check of ResultsManager.get_variables; run-directory format/ordering rules of C10; data_file_for_reference on a model "
        "archive. 'Chain equals composition of stages' over arbitrary data is not decided.")
    rep.rule("R1", "source-mode preceding swaps in the predecessor's data.csv and records it")
    rep.rule("R2", "the predecessor's data is complete before the successor loads")
    rep.rule("R3", "references read the referenced group's current variables / collected header values")
    rep.rule("R4", ":last/:first resolve by time")
    rep.rule("R5", "a results reference resolves to the referenced member's data.csv")
    r1(idx, rep)
    c08.serial(idx, rep, "R2", aspects=("protocol", "load-wiring", "add-wiring"))
    r3(idx, rep)
    c10.r3(idx, _Proxy(rep, "R4"))
    c10.r5(idx, _Proxy(rep, "R4"))
    r5(idx, rep)
    from . import c09
    c09.empty_collection(idx, rep, "R2")
    # what a later member, a header reference or a replay reads out of data.csv are the cells that were collected: the file is parsed back
    # with the delimiter and quotechar it was written with
    c09.spooler_dialect(idx, rep, "R3")
    # the chain a run executes is the group as it is declared *now* (a source-mode comment added by re-declaring the group takes effect):
    # C12's curated sequences with reads between writes
    from . import c12
    n12, msg12 = c12.run_sequences(idx, 0, extra=c12.CURATED)
    rep.check(msg12 is None, "R1", "csvpath/managers/paths/paths_manager.py::a run loads the group as declared now", msg12 or f"{n12} operation sequences", "csvpath/managers/paths/paths_manager.py")
    rep.stats["exhaustive"] = True


def r1(idx, rep):
    fi = idx.method("CsvPaths", "_load_csvpath")
    rep.analysed(fi)
    bad = None
    n = 0
    for preceding in (True, False):
        for by_line in (True, False):
            for has_prev in (True, False):
                for fname in ("F", "$p.results.2026:last.one"):
                    for pname in ("P", "$P.csvpaths.two:from"):
                        def last_res(i, c, r, a, k, has_prev=has_prev):
                            i.record_call("get_last_named_result", dict(k))
                            return Obj("prev") if has_prev else None

                        it = Interp(idx, types={"self": "CsvPaths"}, unknown_calls="residual",
                                    handlers={"MetadataParser": lambda i, c, r, a, k: Obj("mp"), "mp.extract_metadata": lambda i, c, r, a, k: "$[*][yes()]",
                                              "cp.update_settings_from_metadata": lambda i, c, r, a, k: i.record_call("update_settings"),
                                              "self.results_manager.data_file_for_reference": lambda i, c, r, a, k: (i.record_call("data_file_for_reference", a[0]), "REFFILE")[1],
                                              "self.results_manager.get_last_named_result": last_res,
                                              "cp.parse": lambda i, c, r, a, k: i.record_call("parse", a[0])})
                        st = {"cp.data_from_preceding": preceding, "cp.identity": "two", "prev.data_file_path": "PREV/data.csv", "cp.metadata": {}}
                        ps = it.run_all(fi, args={"csvpath": Obj("cp"), "path": "~id:two~ $[*][yes()]", "file": "ORIG.csv", "pathsname": pname, "filename": fname, "by_line": by_line}, store=st)
                        n += 1
                        if len(ps) != 1:
                            bad = bad or f"_load_csvpath depends on something outside the model: {ps[0].summary()['choices']}"
                            continue
                        p = ps[0]
                        cfg = f"source-mode preceding={preceding} by_line={by_line} predecessor={'yes' if has_prev else 'no'} filename={fname!r}"
                        if preceding and by_line:
                            if p.result[0] != "raise":
                                bad = bad or f"{cfg}: a breadth-first run must refuse source-mode preceding"
                            continue
                        if p.result[0] != "return":
                            bad = bad or f"{cfg}: {p.result}"
                            continue
                        parsed = [v for kk, v in p.calls("parse")]
                        base = "REFFILE" if fname.startswith("$") else "ORIG.csv"
                        want_file = "PREV/data.csv" if (preceding and has_prev) else base
                        if parsed != [f"${want_file}[*][yes()]"]:
                            bad = bad or f"{cfg}: the member parses {parsed}; documented ${want_file}[...] ({'the predecessor data.csv' if preceding and has_prev else 'the named file'})"
                        md = p.final_store.get("cp.metadata", {})
                        if preceding and has_prev and md.get("source-mode-source") != "PREV/data.csv":
                            bad = bad or f"{cfg}: the swapped-in source is not recorded in the metadata ({md})"
                        if preceding:
                            calls = p.calls("get_last_named_result")
                            want_name = "P"
                            if len(calls) != 1 or calls[0][1].get("name") != want_name:
                                bad = bad or f"{cfg} pathsname={pname!r}: predecessor looked up with {calls}; expected name={want_name!r}"
                        upd = [kk for k, kk, v in p.trace if k == "call" and kk in ("update_settings", "parse")]
                        if upd[:1] != ["update_settings"]:
                            bad = bad or f"{cfg}: the mode settings are applied after the file is chosen ({upd}); source-mode would be read too late"
    rep.check(bad is None, "R1", f"{fi.file}::CsvPaths._load_csvpath table", bad or f"{n} rows", K.where(fi, fi.node))
    rep.stats["table_rows"] = rep.stats.get("table_rows", 0) + n
    # the predecessor is the last result added so far
    fl = idx.method("ResultsManager", "get_last_named_result")
    bad = None
    for rs, want in (([Obj("r0")], Obj("r0")), ([Obj("r0"), Obj("r1"), Obj("r2")], Obj("r2")), ([], None)):
        it = Interp(idx, types={"self": "ResultsManager"}, handlers={"self.get_named_results": lambda i, c, r, a, k, rs=rs: list(rs)})
        ps = it.run_all(fl, args={"name": "P", "before": "x"})
        if len(ps) != 1 or ps[0].result != ("return", want):
            bad = bad or f"results {rs}: predecessor {ps[0].result}, documented {want}"
    rep.check(bad is None, "R1", f"{fl.file}::ResultsManager.get_last_named_result table", bad or "", K.where(fl, fl.node))
    # a result's data file and actual input
    fd, ok, d = K.returns(idx, "Result", "data_file_path", "RUN/one/data.csv", handlers=K.JOIN, store={"self.instance_dir": "RUN/one"})
    rep.check(ok, "R1", f"{fd.file}::Result.data_file_path", d, K.where(fd, fd.node))
    fa, ok, d = K.returns(idx, "Result", "actual_data_file", "ACTUAL.csv", store={"self._actual_data_file": None, "self.csvpath.scanner.filename": "ACTUAL.csv", "self._csvpath.scanner.filename": "ACTUAL.csv"})
    rep.check(ok, "R1", f"{fa.file}::Result.actual_data_file is what the scanner read", d, K.where(fa, fa.node))
    for mv, want in (("preceding", True), ("origin", False), (None, False)):
        fs, ok, d = K.returns(idx, "SourceMode", "value", want, store={"self._source_mode": None}, handlers={"self.controller.get": lambda i, c, r, a, k, mv=mv: mv if a == ["source-mode"] else "WRONG-KEY"})
        rep.check(ok, "R1", f"{fs.file}::SourceMode.value for {mv!r}", d, K.where(fs, fs.node))


def r3(idx, rep):
    # ---- get_variables reflects the members' current variables (no stale memo), earlier member wins on a clash
    fg = idx.method("ResultsManager", "get_variables")
    rep.analysed(fg)
    v0 = {"a": 1, "seen": 2}
    v1 = {"a": 9, "b": 3}

    def program(it):
        first = it.call_function(fg, {"name": "P"}, "self")
        v0["seen"] = 11
        v1["b"] = 4
        second = it.call_function(fg, {"name": "P"}, "self")
        return first, second

    store = K.instance_store(idx, "ResultsManager")
    store.update({"r0.csvpath.variables": v0, "r1.csvpath.variables": v1})
    it = Interp(idx, types={"self": "ResultsManager"}, unknown_calls="residual", handlers={"self.get_named_results": lambda i, c, r, a, k: [Obj("r0"), Obj("r1")]})
    # the dictionaries are shared by reference on purpose: the store copy happens once per run
    ps = it.run_program(lambda i: _getvars_program(i, fg), store)
    ok = len(ps) == 1 and ps[0].result[0] == "return"
    detail = f"{[p.result for p in ps]}"
    if ok:
        first, second = ps[0].result[1]
        # (both members set `a`: the member that ran later has the last word — docs/variables.md "Sharing Variables": a csvpath's changes
        # "effectively overwrite any same-name variable that is run before"; print references resolve the same way)
        ok = first == {"a": 9, "seen": 2, "b": 3} and second == {"a": 9, "seen": 11, "b": 4}
        detail = (f"first call {first}, after the members' variables changed {second}; a reference must see the values the run left, the later member's for a name both "
                  "set (expected a=9, then seen=11, b=4)")
    rep.check(ok, "R3", f"{fg.file}::ResultsManager.get_variables is never stale", detail, K.where(fg, fg.node))
    # ---- Reference._variable_value
    fv = idx.method("Reference", "_variable_value")
    rep.analysed(fv)
    bad = None
    vs = {"v": 5, "t": {"k": 7}, "z": 0}
    for name, tracking, want in (("v", None, 5), ("t", "k", 7), ("t", "q", None), ("t", None, {"k": 7}), ("z", None, 0)):
        it = Interp(idx, types={"self": "Reference"}, unknown_calls="residual",
                    handlers={"self._get_reference": lambda i, c, r, a, k, name=name, tracking=tracking: {"paths_name": "P", "name": name, "tracking": tracking, "data_type": "variables"},
                              "cs.results_manager.get_variables": lambda i, c, r, a, k: (i.record_call("get_variables", a[0]), dict(vs))[1]},
                    domains={"self.matcher.csvpath.csvpaths": [Obj("cs")]})
        ps = it.run_all(fv)
        if len(ps) != 1 or ps[0].result != ("return", want) or [v for kk, v in ps[0].calls("get_variables")] != ["P"]:
            bad = bad or f"$P.variables.{name}{'.' + tracking if tracking else ''}: {ps[0].result}, documented {want!r} (from the group named in the reference)"
    rep.check(bad is None, "R3", f"{fv.file}::Reference._variable_value table", bad or "", K.where(fv, fv.node))
    # ---- header reference: the referenced result's collected lines at the header's index
    fh = idx.method("Reference", "_get_value_from_results")
    rep.analysed(fh)
    lines = [["1", " x ", "u"], ["2"], ["3", "y", "w"], ["4", "", "v"], ["5", "0", "t"]]
    it = Interp(idx, types={"self": "Reference"}, unknown_calls="residual",
                handlers={"res.csvpath.header_index": lambda i, c, r, a, k: {"id": 0, "b": 1}.get(a[0]), "res.lines.next": lambda i, c, r, a, k: [list(x) for x in lines]})
    ps = it.run_all(fh, args={"ref": {"name": "b"}, "result": Obj("res")})
    rep.check(len(ps) == 1 and ps[0].result == ("return", ["x", "y", "", "0"]), "R3", f"{fh.file}::Reference._get_value_from_results table",
              f"{ps[0].result}; documented ['x', 'y', '', '0'] (one value per collected line that has the column — an empty cell is a value — from the referenced result's own lines)", K.where(fh, fh.node))
    seen = []
    fr, ps = K.sym_result(idx, "Reference", "_header_value", handlers={"self._get_reference": lambda i, c, r, a, k: {"name": "h"}, "self.get_results": lambda i, c, r, a, k: Obj("RES"),
                                                                 "self._get_value_from_results": lambda i, c, r, a, k: (seen.append(a), "VALS")[1]})
    rep.check(len(ps) == 1 and ps[0].result == ("return", "VALS") and seen == [[{"name": "h"}, Obj("RES")]], "R3", f"{fr.file}::Reference._header_value uses the referenced results", f"{seen}", K.where(fr, fr.node))
    # get_results: the group named in the reference; single member or the member named by the tracking value
    fq = idx.method("Reference", "get_results")
    rep.analysed(fq)
    bad = None
    for nres, tracking, want in ((1, None, "r0"), (2, "two", "SPEC"), (2, None, "raise")):
        it = Interp(idx, types={"self": "Reference"}, unknown_calls="residual",
                    handlers={"self._get_reference": lambda i, c, r, a, k, tracking=tracking: {"paths_name": "P", "name": "h", "tracking": tracking, "data_type": "headers"},
                              "rm.has_lines": lambda i, c, r, a, k: a[0] == "P", "rm.get_number_of_results": lambda i, c, r, a, k, nres=nres: nres,
                              "rm.get_named_results": lambda i, c, r, a, k, nres=nres: [Obj(f"r{j}") for j in range(nres)], "rm.get_specific_named_result": lambda i, c, r, a, k: Obj("SPEC") if a == ["P", "two"] else None},
                    domains={"self.matcher.csvpath.csvpaths.results_manager": [Obj("rm")]})
        ps = it.run_all(fq)
        got = ps[0].result
        if want == "raise":
            if got[0] != "raise":
                bad = bad or f"{nres} members, no tracking value: {got}"
        elif got != ("return", Obj(want)):
            bad = bad or f"{nres} members, tracking {tracking!r}: {got}, documented {want}"
    rep.check(bad is None, "R3", f"{fq.file}::Reference.get_results table", bad or "", K.where(fq, fq.node))


def _getvars_program(it, fg):
    v0 = it.store["r0.csvpath.variables"]
    v1 = it.store["r1.csvpath.variables"]
    first = dict(it.call_function(fg, {"name": "P"}, "self"))
    v0["seen"] = 11
    v1["b"] = 4
    second = dict(it.call_function(fg, {"name": "P"}, "self"))
    return first, second


def r5(idx, rep):
    fi = idx.method("ResultsManager", "data_file_for_reference")
    rep.analysed(fi, *K.opt(idx, "ResultsManager", "_find_instance"))
    fs = c10.FS(["ARCH", "ARCH/p", "ARCH/p/2026-01-02_03-04-05", "ARCH/p/2026-01-02_03-04-05/one", "ARCH/p/2026-01-02_03-04-05/one/data.csv",
                 "ARCH/p/2026-01-02_09-00-00", "ARCH/p/2026-01-02_09-00-00/one", "ARCH/p/2026-01-02_09-00-00/one/data.csv"])
    bad = None
    # (running: the run directory of a run of p that is in progress — a replay of p's own results — or None)
    for inst, want, running in (("2026-01-02_03-04-05", "ARCH/p/2026-01-02_03-04-05/one/data.csv", None), ("2026-01-02_:last", "ARCH/p/2026-01-02_09-00-00/one/data.csv", None),
                                ("2026-01-:first", "ARCH/p/2026-01-02_03-04-05/one/data.csv", None),
                                ("2026-01-02_:last", "ARCH/p/2026-01-02_03-04-05/one/data.csv", "ARCH/p/2026-01-02_09-00-00"),
                                ("2026-01-02_:last", "ARCH/p/2026-01-02_09-00-00/one/data.csv", "ARCH/other/2026-01-02_09-00-00")):
        h = fs.handlers()
        h.setdefault("os.path.normpath", lambda i, c, r, a, k: a[0].rstrip("/"))
        h.setdefault("os.path.dirname", lambda i, c, r, a, k: a[0].rpartition("/")[0])
        h.setdefault("os.path.basename", lambda i, c, r, a, k: a[0].rpartition("/")[2])
        h["ReferenceParser"] = K.reference_parser_handler(idx)
        h["datetime.datetime.strptime"] = lambda i, c, r, a, k: __import__("datetime").datetime.strptime(a[0], a[1])
        it = Interp(idx, types={"self": "ResultsManager"}, unknown_calls="residual", handlers=h,
                    inline={"ResultsManager._find_instance", "ResultsManager._find_last", "ResultsManager._find_first", "ResultsManager._find", "ResultsManager._find_in_dir_names"})
        st = {"self._csvpaths.config.archive_path": "ARCH", "self._csvpaths._run_time_str": running, "self.csvpaths._run_time_str": running}
        ps = it.run_all(fi, args={"refstr": f"$p.results.{inst}.one"}, store=st)
        if len(ps) != 1 or ps[0].result != ("return", want):
            bad = bad or f"$p.results.{inst}.one (run in progress: {running}) resolves to {[p.result for p in ps]}; documented {want!r}"
    rep.check(bad is None, "R5", f"{fi.file}::ResultsManager.data_file_for_reference model archive", bad or "", K.where(fi, fi.node))
    # the reference parser itself: parts of the documented reference forms (member identities may contain dots)
    fp = idx.method("ReferenceParser", "parse")
    rep.analysed(fp, *K.opt(idx, "ReferenceParser", "_names_from_name"), *K.opt(idx, "ReferenceParser", "_set_names"), *K.opt(idx, "ReferenceParser", "_set_root"))
    table = [
        ("$chain.results.2026-01-02_03-04-05.two", dict(root_major="chain", root_minor=None, datatype="results", name_one="2026-01-02_03-04-05", name_three="two")),
        ("$chain.results.2026-01-02_:last.two.v2", dict(root_major="chain", datatype="results", name_one="2026-01-02_:last", name_three="two.v2")),
        ("$p.variables.v.k", dict(root_major="p", datatype="variables", name_one="v", name_three="k")),
        ("$p.variables.v", dict(root_major="p", datatype="variables", name_one="v", name_three=None)),
        ("$p.csvpaths.two:from", dict(root_major="p", datatype="csvpaths", name_one="two:from")),
        ("$p#one.headers.h", dict(root_major="p", root_minor="one", datatype="headers", name_one="h")),
        ("$.headers.h", dict(root_major="local", datatype="headers", name_one="h")),
    ]
    bad = None
    for s_, want in table:
        it = Interp(idx, types={}, unknown_calls="residual", handlers={"ReferenceParser": K.reference_parser_handler(idx)})

        def program(it, s_=s_):
            o = it.handlers["ReferenceParser"](it, None, None, [s_], {})
            out = {}
            for k in ("root_major", "root_minor", "datatype"):
                out[k] = it.eval(ast.parse(f"o.{k}", mode="eval").body, {"o": o})  # through the property getter
            names = it.store.get(f"{o.name}._names") or [None] * 4
            out["name_one"], out["name_two"], out["name_three"], out["name_four"] = (list(names) + [None] * 4)[:4]
            return out

        ps = it.run_program(program, {})
        got = ps[0].result[1] if len(ps) == 1 and ps[0].result[0] == "return" else {"error": ps[0].result}
        diff = {k: (got.get(k), v) for k, v in want.items() if got.get(k) != v}
        if diff:
            bad = bad or f"reference {s_!r}: parsed {diff} (got, documented)"
    rep.check(bad is None, "R5", f"{fp.file}::ReferenceParser table", bad or f"{len(table)} references", K.where(fp, fp.node))
