"""C08 — a csvpath gives the same results alone, in a serial run and breadth-first.

  R1 drivers agree        per-member step of next_by_line == per-line step of CsvPath.next: track_line → _consider_line → limit_collection on match
  R2 fresh member state   one new CsvPath per member; the file cacher hands out copies of the line monitor / headers
  R3 union/intersection   breadth-first yields: per line OR (if_all_agree: AND) of the considered members' decisions
  R4 signals              stop_all/fail_all/skip_all/advance_all raised only by their functions; flags written only there and in resets
  R5 serial template      the three serial methods follow one protocol (decision table of each, all load/run failure points)
  R6 by-line schedule     per line every un-stopped member gets exactly one track_line + one consideration; ends when all stopped
"""
import ast

from sa.index import AnalysisError, unparse, walk_no_nested, call_name
from sa.absint import Interp, Obj, Residual
from . import common as K
from . import runs_model as RM
from . import runs_judge as RJ


def run(idx, rep, tier):
    rep.explanation = (
        "Decision tables by abstract interpretation of the run methods of CsvPaths: the three serial methods with 2 members and every "
        "combination of load/run failure and handler re-raise, and next_by_line with 2 members x 3 lines x votes x stop points (plus the "
        "skip_all scenario), compared event by event with the run protocol; copy-out discipline of FileCacher; who-may-call/who-may-write of "
        "the cross-path signals; member construction. Equality of results between schedules rests on member semantics (C01) and is not "
        "decided beyond these structural conditions.")
    rep.rule("R1", "the breadth-first member step equals the standalone per-line step")
    rep.rule("R2", "every member runs on a fresh CsvPath with its own copy of the line monitor and headers")
    rep.rule("R3", "breadth-first yields the union (if_all_agree: intersection) of the members' decisions")
    rep.rule("R4", "cross-path signals are raised only by their functions")
    rep.rule("R5", "collect_paths / fast_forward_paths / next_paths follow the same run protocol")
    rep.rule("R6", "breadth-first schedule: one track_line and one consideration per un-stopped member per line")
    serial(idx, rep, "R5")
    byline(idx, rep, "R6", "R3", tier)
    # a breadth-first run begins like a serial one: the run coordination of whatever ran before on this instance (also a run that died) is
    # reset before the run is named, so its members do not write into — and read back — an earlier run's directory
    from . import c09 as _c09
    _c09.prep_protocol(idx, rep, "R6")
    # an exception that gets out of one member on some line and is handled without re-raising costs that member its say about the line and
    # nothing else: the members after it are still handed the line (track_line + consideration), as they are when they run alone
    byline(idx, rep, "R6", "R3", tier, scenarios=("abort",), aspects=("schedule", "yields"))
    # alone, a member's unmatched lines include the line it stopped on when that line did not match — as they do by line (byline_keep above):
    # the generator's yield / unmatched partition (C07.R7's table)
    from . import c07 as _c07
    _c07.r4_r5_r7(idx, K.as_rule(rep, "R2", keep=lambda k: "partition" in k))
    # in a breadth-first run every member is handed the same list object for a line, and so is the caller: a member must leave it as it
    # came from the file.  collect()'s projection builds a new list (C07.R6's table), and nothing but the documented line editors
    # (replace(), append()) writes into a line in place
    _c07.r6(idx, K.as_rule(rep, "R2", keep=lambda k: "limit_collection table" in k))
    line_writers(idx, rep, "R2")
    byline_wrappers(idx, rep, "R3")
    r1(idx, rep)
    r2(idx, rep)
    r4(idx, rep)
    K.mutable_defaults(idx, rep, "R2")
    # a member inside a group reads the same modes and the same file as alone: the group drivers seed metadata (collect_when_not_matched)
    # before the member's comment is collected, so the comment must win; and the name the group resolves delivers the content registered last
    from . import c15, c11
    c15.metadata_merge(idx, rep, "R1")
    n, msg = c11.run_sequences(idx, 3)
    rep.check(msg is None, "R2", "csvpath/managers/files/file_manager.py::the named file a group runs on is the content registered last", msg or f"{n} operation sequences", "csvpath/managers/files/file_manager.py")
    from . import c06
    c06.r1(idx, K.as_rule(rep, "R1"))
    rep.stats["exhaustive"] = True


def serial(idx, rep, rid, aspects=None):
    for m in ("collect_paths", "fast_forward_paths", "next_paths"):
        fi, paths = RM.serial_rows(idx, m)
        rep.analysed(fi)
        bad = {}
        for p in paths:
            for aspect, ok, detail in RJ.serial_judge(m, p):
                if not ok:
                    bad.setdefault(aspect, detail)
        for aspect in (aspects or ("protocol", "outcome", "result-wiring", "load-wiring", "add-wiring", "save-once", "handler-wiring", "complete-wiring", "start-wiring")):
            rep.check(aspect not in bad, rid, f"{fi.file}::CsvPaths.{m} table {aspect}", bad.get(aspect, f"{len(paths)} paths"), K.where(fi, fi.node))
        rep.stats["table_rows"] = rep.stats.get("table_rows", 0) + len(paths)
    rep.sample({"rule": rid, "method": "next_paths", "example": [e[0] for e in RM.events(paths[0])]})


def byline(idx, rep, rid_sched, rid_yield, tier, scenarios=("plain", "plain2", "skipall", "stops_a", "stops_b"), aspects=("schedule", "yields", "outcome")):
    for sc in scenarios:
        n = {"plain": 3, "plain2": 3, "stops_a": 5, "stops_b": 5}.get(sc, 2)
        fi, rows = RM.byline_rows(idx, n, sc)
        rep.analysed(fi)
        bad = {}
        for agree, p in rows:
            for aspect, ok, detail in RJ.byline_judge(sc, agree, p, n):
                if not ok:
                    bad.setdefault(aspect, detail)
        for aspect in aspects + (("handled-error",) if sc == "abort" else ()):
            rid = rid_yield if aspect == "yields" else rid_sched
            rep.check(aspect not in bad, rid, f"{fi.file}::CsvPaths.next_by_line table {sc} {aspect}", bad.get(aspect, f"{len(rows)} paths"), K.where(fi, fi.node))
        rep.stats["table_rows"] = rep.stats.get("table_rows", 0) + len(rows)
    if tier == "thorough" and "plain" in scenarios:
        # three members x two lines
        fi, rows = RM.byline_rows(idx, 2, "plain", members=3)
        bad = {}
        for agree, p in rows:
            for aspect, ok, detail in RJ.byline_judge("plain", agree, p, 2):
                if not ok:
                    bad.setdefault(aspect, detail)
        for aspect in aspects:
            rid = rid_yield if aspect == "yields" else rid_sched
            rep.check(aspect not in bad, rid, f"{fi.file}::CsvPaths.next_by_line table plain (3 members) {aspect}", bad.get(aspect, f"{len(rows)} paths"), K.where(fi, fi.node))
        rep.stats["table_rows"] = rep.stats.get("table_rows", 0) + len(rows)


def byline_norun(idx, rep, rid):
    """a member with run-mode: no-run sits a breadth-first run out as it does a serial one: it is never handed a line (no track_line, no
    consideration), collects nothing, and the others are scheduled as if it were not there"""
    fi, rows = RM.byline_rows(idx, 2, "norun", collect=True)
    bads = {}
    for agree, p in rows:
        if agree:
            continue   # what a switched-off member means for if_all_agree is not documented: judged in union mode only
        for aspect, ok, detail in RJ.byline_judge("norun", agree, p, 2):
            if aspect in ("schedule", "collected", "yields") and not ok:
                bads.setdefault(aspect, detail)
    for aspect in ("schedule", "collected", "yields"):
        rep.check(aspect not in bads, rid, f"{fi.file}::CsvPaths.next_by_line table run-mode no-run {aspect}", bads.get(aspect, f"{len(rows)} paths"), K.where(fi, fi.node))


def byline_keep(idx, rep, rid):
    """unmatched-mode keep in a breadth-first collecting run: each member ends up holding exactly the lines it was handed and did not
    match (through its own projection), in file order — so that collected and unmatched lines together are the records read, as in a
    serial run; without collect nothing is kept"""
    for collect in (True, False):
        fi, rows = RM.byline_rows(idx, 2, "keep", collect=collect)
        bad = None
        for agree, p in rows:
            ch = dict(p.choices)
            considered = [v for kk, v in RM.events(p) if kk == "_consider_line"]
            for m in ("cp0", "cp1"):
                want = [f"limited[{m}]({ln})" for mm, ln in considered if mm == m and collect and not ch.get(f"matched({m},{ln})")]
                got = [getattr(v, "text", v) for v in (p.final_store.get(f"{m}.unmatched") or [])]
                if got != want or p.result[0] != "return":
                    bad = bad or (f"next_by_line(collect={collect}) with {[(t, v) for t, v in p.choices if not t.startswith('self.')]}: member {m} with unmatched-mode keep holds {got}, "
                                  f"documented {want} (the lines it did not match, once, in file order)")
        rep.check(bad is None, rid, f"{fi.file}::CsvPaths.next_by_line table unmatched-mode keep (collect={collect})", bad or f"{len(rows)} paths", K.where(fi, fi.node))


def byline_collect(idx, rep, rid):
    """per-member collection in a breadth-first run: with collect each member's result gets exactly the lines that member matched; without
    (next_by_line / fast_forward_by_line) no result gets any line"""
    for collect in (True, False):
        fi, rows = RM.byline_rows(idx, 2, "plain", collect=collect)
        bad = None
        bads = {}
        for agree, p in rows:
            for aspect, ok, detail in RJ.byline_judge("plain", agree, p, 2):
                if aspect == "collected" and not ok:
                    bad = bad or detail
                elif aspect in ("schedule", "yields") and not ok:
                    bads.setdefault(aspect, detail)
        rep.check(bad is None, rid, f"{fi.file}::CsvPaths.next_by_line table collected (collect={collect})", bad or f"{len(rows)} paths", K.where(fi, fi.node))
        if collect:
            # collecting must not change what the members and the caller see: one member's collect() projection is not the next member's line
            for aspect in ("schedule", "yields"):
                rep.check(aspect not in bads, rid, f"{fi.file}::CsvPaths.next_by_line table collecting {aspect}", bads.get(aspect, f"{len(rows)} paths"), K.where(fi, fi.node))
        rep.stats["table_rows"] = rep.stats.get("table_rows", 0) + len(rows)


def r1(idx, rep):
    byline_collect(idx, rep, "R1")
    byline_norun(idx, rep, "R1")
    # the by-line member step: track_line → _consider_line → (on match and collect) limit_collection, judged by R6;
    # here: the standalone driver has the same step (C01.R4/C03.R6 tables) and by-line appends the limited line
    fi = idx.method("CsvPaths", "next_by_line")
    rep.analysed(fi)
    # the by-line driver hands every reader line to _consider_line, which alone decides about blank records: its table
    from . import consider_model as CM
    fc, crow = CM.rows(idx)
    rep.analysed(fc)
    bad = None
    for adv, p in crow:
        f = CM.facts(adv, p)
        if f["skip_blank"] and f["empty"] and not f["blank_last"]:
            if f["n_matches"] or f["scan_sets"] or f["result"] != ("return", False):
                bad = bad or "a blank record reaching _consider_line (as it does in breadth-first runs) is matched or counted; standalone and breadth-first runs would differ"
    rep.check(bad is None, "R1", f"{fc.file}::CsvPath._consider_line skips blank records itself", bad or "", K.where(fc, fc.node))
    # reader: same dialect as the standalone reader (delimiter and quotechar of the owner)
    rd = [n for n in walk_no_nested(fi.node) if isinstance(n, ast.Call) and call_name(n) in ("get_reader", "DataFileReader", "get_named_file_reader")]
    okr = len(rd) == 1 and {k.arg: unparse(k.value) for k in rd[0].keywords} == {"delimiter": "self.delimiter", "quotechar": "self.quotechar"} and call_name(rd[0]) in ("get_reader", "DataFileReader")
    rep.check(okr, "R1", f"{fi.file}::CsvPaths.next_by_line reader dialect", f"{[unparse(r) for r in rd]}: the breadth-first reader must get the instance's delimiter and quotechar like the standalone reader", K.where(fi, fi.node))
    # wrappers: collect_by_line / fast_forward_by_line only iterate next_by_line and forward their flags
    for w, collect in (("collect_by_line", "True"), ("fast_forward_by_line", "False")):
        fw = idx.method("CsvPaths", w)
        rep.analysed(fw)
        c = [n for n in walk_no_nested(fw.node) if isinstance(n, ast.Call) and call_name(n) == "next_by_line"]
        kw = K.kw_values(idx, fw, c[0]) if len(c) == 1 else {}
        want = {"pathsname": "pathsname", "filename": "filename", "collect": collect, "if_all_agree": "if_all_agree", "collect_when_not_matched": "collect_when_not_matched"}
        rep.check(kw == want, "R1", f"{fw.file}::CsvPaths.{w} forwards to next_by_line", f"{kw}", K.where(fw, fw.node))


def r2(idx, rep):
    # CsvPaths.csvpath(): a new CsvPath with the instance's dialect
    fi = idx.method("CsvPaths", "csvpath")
    rep.analysed(fi)
    ctor = [n for n in walk_no_nested(fi.node) if isinstance(n, ast.Call) and call_name(n) == "CsvPath"]
    kw = K.kw_values(idx, fi, ctor[0]) if len(ctor) == 1 else {}
    okc = kw.get("csvpaths") == "self" and kw.get("delimiter") == "self.delimiter" and kw.get("quotechar") == "self.quotechar" and kw.get("skip_blank_lines") == "self.skip_blank_lines"
    rets = [n for n in walk_no_nested(fi.node) if isinstance(n, ast.Return)]
    rep.check(okc and len(rets) == 1, "R2", f"{fi.file}::CsvPaths.csvpath builds a new member", f"{kw}", K.where(fi, fi.node))
    # _load_csvpath_objects: one csvpath() per path
    fl = idx.method("CsvPaths", "_load_csvpath_objects")
    rep.analysed(fl)

    def newcp(interp, call, recv, args, kwargs):
        n = interp.path.__dict__.setdefault("n", 0)
        interp.path.n = n + 1
        return Obj(f"cp{n}")

    it = Interp(idx, types={"self": "CsvPaths"}, unknown_calls="residual",
                handlers={"self.csvpath": newcp, "self._load_csvpath": lambda i, c, r, a, k: i.record_call("_load_csvpath", dict(k))},
                domains={"cp0.data_from_preceding": [False], "cp1.data_from_preceding": [False]})
    ps = it.run_all(fl, args={"paths": ["p0", "p1"], "named_file": "f", "collect_when_not_matched": False, "filename": "F", "pathsname": "P"})
    okl = len(ps) == 1 and ps[0].result[0] == "return" and [x[0] for x in ps[0].result[1]] == [Obj("cp0"), Obj("cp1")]
    loads = ps[0].calls("_load_csvpath") if ps else []
    okl = okl and [l[1].get("csvpath") for l in loads] == [Obj("cp0"), Obj("cp1")] and all(l[1].get("by_line") is True for l in loads)
    rep.check(okl, "R2", f"{fl.file}::CsvPaths._load_csvpath_objects one fresh csvpath per member", f"{ps[0].result if ps else None}", K.where(fl, fl.node))
    # FileCacher hands out copies
    copies(idx, rep, "R2")
    # ... and what it hands out warm (from the on-disk cache) equals what it computed cold (C19.R2)
    from . import c19

    class Proxy:
        def __init__(self, rep):
            self.rep = rep
            self.stats = rep.stats

        def __getattr__(self, n):
            return getattr(self.rep, n)

        def check(self, cond, rid, key, detail="", where=""):
            return self.rep.check(cond, "R2", key, detail, where)

    c19.r2(idx, Proxy(rep))


def copies(idx, rep, rid):
    """every csvpath gets its own copy of the line monitor and of the header list the cacher holds — cold (counted now), warm in memory, and
    warm from the cache directory (public accessors only, one file through two lives of a FileCacher: c19.cacher_history)"""
    from . import c19
    fm = idx.method("FileCacher", "get_new_line_monitor")
    fh = idx.method("FileCacher", "get_original_headers")
    rep.analysed(fm, fh)
    okm = okh = True
    dm = dh = ""
    for keep_memory, monitor_first in ((False, False), (True, False), (False, True), (True, True)):
        fs, ps = c19.cacher_history(idx, c19.stdlib_handlers(), ["a", "b"], keep_memory=keep_memory, monitor_first=monitor_first)
        if len(ps) != 1 or ps[0].result[0] != "return":
            okm = okh = False
            dm = dh = f"{[p.result for p in ps][:2]}"
            continue
        r1, m1, r2, m2 = ps[0].result[1]
        want2 = Obj("COPY_OF_COUNTED") if keep_memory else Obj("COPY_OF_LOADED")
        if m1 != Obj("COPY_OF_COUNTED") or m2 != want2:
            okm = False
            dm = f"first request returns {m1!r}, the next one ({'same instance' if keep_memory else 'new process'}) {m2!r}"
        held = [v[1] for v in (ps[0].final_store.get("self.pathed_lines_and_headers") or {}).values() if isinstance(v, (tuple, list)) and len(v) == 2]
        if r1 != ["a", "b"] or r2 != ["a", "b"] or any(r1 is h_ or r2 is h_ for h_ in held) or r1 is r2:
            okh = False
            dh = f"headers handed out {r1!r} / {r2!r}; held {held!r}"
    rep.check(okm, rid, f"{fm.file}::FileCacher.get_new_line_monitor returns a copy",
              f"{dm}: every csvpath must get its own copy of the cached LineMonitor (a shared monitor carries line counters from one member into the next)", K.where(fm, fm.node))
    rep.check(okh, rid, f"{fh.file}::FileCacher.get_original_headers returns a copy",
              f"{dh}: the cached header list itself is handed out: one member's header rewrite (append(), reset_headers()) would leak into every other member", K.where(fh, fh.node))


def r4(idx, rep):
    sig = {"stop_all": "StopAll", "fail_all": "FailAll", "skip_all": "SkipAll", "advance_all": "AdvanceAll"}
    for s in K.calls_named(idx, set(sig)):
        fi = s["fi"]
        nm = call_name(s["call"])
        if s["recv"] is None:
            continue  # a bare name, not a method call on the coordinator
        allowed = {sig[nm]}
        if nm == "stop_all":
            allowed |= {"AdvanceAll"}  # advance_all() documents that it also stops the serial siblings
        rep.check(fi.cls in allowed, "R4", f"{fi.file}::{fi.qual} calls {nm}", f"{nm}() on the CsvPaths may only be called by the {sig[nm]} match function", K.where(fi, s["call"]))
    rep.floor("R4", 4, "signal call sites")
    flags = {"_stop_all": True, "_fail_all": True, "_skip_all": True, "_advance_all": None}
    resets = {"CsvPaths.__init__", "CsvPaths.clear_run_coordination", "CsvPaths.next_by_line"}
    for s in K.attr_stores(idx, set(flags)):
        fi, v = s["fi"], s["value"]
        setter = f"CsvPaths.{s['target'].attr[1:]}"
        if K.owner_of(idx, fi, {setter}) is not None:
            okv = (K.is_const(v, True) if flags[s["target"].attr] else isinstance(v, ast.Name))
            rep.check(okv, "R4", f"{fi.file}::{fi.qual} sets {s['target'].attr}", f"stores {unparse(v)}", K.where(fi, s["stmt"]))
        else:
            own = K.owner_of(idx, fi, resets)
            okr = own is not None and (K.is_const(v, False) or K.is_const(v, 0))
            if own == "CsvPaths.next_by_line":
                okr = okr and s["target"].attr in ("_skip_all", "_advance_all")
            rep.check(okr, "R4", f"{fi.file}::{fi.qual} resets {s['target'].attr}", f"`{unparse(s['stmt'])}`: the signal flags may only be raised by their setters and cleared by the run resets", K.where(fi, s["stmt"]))



LINE_EDITORS = {"Replace", "Append"}   # replace(#h, v) and append(name, v): the functions documented to change the line for what follows
_MUTATORS = {"append", "insert", "pop", "remove", "extend", "clear", "sort", "reverse", "__setitem__", "__delitem__"}


def _rebound_to_copy(fn, name):
    """every assignment to `name` in fn binds a freshly built list (list(...), copy(...), x[:], a list display or comprehension), and there
    is at least one"""
    vals = [n.value for n in walk_no_nested(fn) if isinstance(n, ast.Assign) and any(isinstance(t, ast.Name) and t.id == name for t in n.targets)]
    def fresh(v):
        return (isinstance(v, (ast.List, ast.ListComp)) or (isinstance(v, ast.Call) and call_name(v) in ("list", "copy", "deepcopy"))
                or (isinstance(v, ast.Subscript) and isinstance(v.slice, ast.Slice) and v.slice.lower is None and v.slice.upper is None))
    return bool(vals) and all(fresh(v) for v in vals)


def line_writers(idx, rep, rid):
    """in-place writes to a line (`<x>.line[i] = …`, `line[:] = …`, `<x>.line.append(…)`, `del line[i]`) outside the documented line editors"""
    n = 0
    hits = []
    for fi in idx.all_funcs("csvpath/"):
        if not (fi.file.startswith("csvpath/matching/") or fi.file in ("csvpath/csvpath.py", "csvpath/csvpaths.py")):
            continue
        n += 1
        for node in walk_no_nested(fi.node):
            base = None
            if isinstance(node, ast.Subscript) and isinstance(node.ctx, (ast.Store, ast.Del)):
                base = node.value
            elif isinstance(node, ast.Call) and isinstance(node.func, ast.Attribute) and node.func.attr in _MUTATORS:
                base = node.func.value
            if base is None:
                continue
            t = K.resolved_text(fi, base) if isinstance(base, ast.Name) else unparse(base)
            # (a local that is bound to a new list — `line = []` — resolves to that expression, not to a line that came in; so does a
            # parameter that is re-bound to a copy of itself before it is changed: `line = list(line)`, `line = line[:]`)
            if isinstance(base, ast.Name) and _rebound_to_copy(fi.node, base.id):
                continue
            if t == "line" or t.endswith(".line"):
                hits.append((fi, node))
    for fi, node in hits:
        rep.check(fi.cls in LINE_EDITORS, rid, f"{fi.file}::{fi.qual} writes into the line in place", f"`{unparse(node)[:80]}`: the list a line arrives in is shared by every member of a "
                  "breadth-first run and by the caller; only replace() and append() are documented to change it", K.where(fi, node))
    rep.check(n > 300, rid, "csvpath::in-place writes to a line are confined to the line editors", f"{n} functions scanned, {len(hits)} write sites", "csvpath/")


def byline_wrappers(idx, rep, rid):
    """collect_by_line / fast_forward_by_line are the generator next_by_line driven to its end: same group, same file, the caller's
    if_all_agree / collect_when_not_matched (both off unless asked for), collecting on for collect_by_line only; collect_by_line returns
    the lines the generator yielded, in order"""
    for meth, collect in (("collect_by_line", True), ("fast_forward_by_line", False)):
        fi = idx.method("CsvPaths", meth)
        rep.analysed(fi)
        bad = None
        for given in ({}, {"if_all_agree": True}, {"collect_when_not_matched": True}, {"if_all_agree": True, "collect_when_not_matched": True}):
            seen = []
            it = Interp(idx, types={"self": "CsvPaths"}, unknown_calls="residual",
                        handlers={"self.next_by_line": lambda i, c, r, a, k, seen=seen: (seen.append(dict(k)), [Residual("L0"), Residual("L1"), Residual("L2")])[1]})
            args = {"pathsname": "P", "filename": "F"}
            args.update(given)
            ps = it.run_all(fi, args=args)
            wantkw = {"pathsname": "P", "filename": "F", "collect": collect, "if_all_agree": given.get("if_all_agree", False), "collect_when_not_matched": given.get("collect_when_not_matched", False)}
            gotkw = dict(seen[0]) if len(seen) == 1 else None
            if gotkw is not None:
                gotkw.setdefault("collect", False)
                gotkw.setdefault("if_all_agree", False)
                gotkw.setdefault("collect_when_not_matched", False)
            if len(ps) != 1 or ps[0].result[0] != "return" or gotkw != wantkw:
                bad = bad or f"{meth}({given or 'defaults'}) drives next_by_line with {seen}; documented one run with {wantkw} ({[p.result for p in ps][:1]})"
            elif collect and ps[0].result[1] != [Residual("L0"), Residual("L1"), Residual("L2")]:
                bad = bad or f"{meth}({given or 'defaults'}) returns {ps[0].result[1]!r}; documented: the lines next_by_line yielded, in order"
        rep.check(bad is None, rid, f"{fi.file}::CsvPaths.{meth} is next_by_line driven to its end", bad or "4 argument sets", K.where(fi, fi.node))
