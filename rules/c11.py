"""C11 — the named-files area is a versioned, content-addressed, immutable store.

  R1 store protocol     FileManager / FileRegistrar are interpreted (AST) on a model file system over every operation sequence up to
                        length 3 (thorough: 5) of {add(name, source file, content), edit the source in place, remove(name), new
                        instance}; after every step the store is compared with an abstract model:
                          current version = last registered bytes, named sha256(bytes).ext; manifest gains exactly one entry per
                          registration that changes the current version; every version ever registered stays on disk unmodified;
                          a fresh instance sees the same state
  R2 destructive ops    inventory of remove/rename/rmtree/copy/open-for-write sites in managers/files
  R3 no instance memo   FileManager / FileRegistrar keep no name→path or manifest state in memory
"""
import ast
import itertools

from sa.index import AnalysisError, unparse, walk_no_nested, call_name, stores_in
from sa.absint import Interp, Obj, Residual, Raised
from . import common as K
from . import store_model as SM

IN = "IN"


def make(idx, fsbox):
    h = SM.handlers(fsbox)

    def new_mdata(i, c, r, a, k):
        n = i.store.get("__mdata_n__", 0) + 1
        i.store["__mdata_n__"] = n
        o = Obj(f"mdata{n}")
        # the record is an instance of the real FileMetadata: any property the class defines (getter or setter) is interpreted
        i.types[o.name] = "FileMetadata"
        i.inline |= {f"FileMetadata.{p}" for p in idx.cls("FileMetadata").properties}
        props = set(idx.cls("FileMetadata").properties)
        for f in ("named_file_name", "origin_path", "name_home", "file_path", "file_home", "file_name", "mark", "type", "manifest_path", "fingerprint"):
            if f in props:
                i.store[f"{o.name}._{f}"] = None  # a property: its backing field starts empty, reads and writes go through the accessors
            else:
                i.store[f"{o.name}.{f}"] = None
        i.store[f"{o.name}.time_string"] = f"T{n}"
        return o

    h["FileMetadata"] = new_mdata
    h["ReferenceParser"] = lambda i, c, r, a, k: Obj("ref")
    fm = {f"FileManager.{m}" for m in idx.cls("FileManager").methods}
    fr = {f"FileRegistrar.{m}" for m in idx.cls("FileRegistrar").methods} | {"FileRegistrar.distribute_update", "FileRegistrar.register_start"}
    it = Interp(idx, types={"self": "FileManager", "self.registrar": "FileRegistrar"}, inline=fm | fr, handlers=h, unknown_calls="residual", max_loop=200)
    return it


def initial_store(idx):
    st = {}
    st.update(K.instance_store(idx, "FileManager", "self"))
    st.update(K.instance_store(idx, "FileRegistrar", "self.registrar"))
    st.update({"self._csvpaths.config.inputs_files_path": IN, "self.csvpaths.config.inputs_files_path": IN, "os.sep": "/",
               "self.registrar.listeners": [Residual("self.registrar")], "self._csvpaths.config.archive_name": "archive",
               "self.csvpaths.config.archive_name": "archive"})
    return st


class Spec:
    """abstract model of the store"""

    def __init__(self):
        self.names = {}

    def add(self, name, src, content):
        v = self.names.setdefault(name, {"versions": [], "entries": 0})
        key = (content, src)
        if not v["versions"] or v["versions"][-1] != key:
            v["entries"] += 1
        v["versions"].append(key) if (not v["versions"] or v["versions"][-1] != key) else None
        v.setdefault("all", set()).add(key)

    def remove(self, name):
        self.names.pop(name, None)


def check_state(idx, it, fs, spec, names, trail):
    """compare the model file system with the abstract store; returns a message or None"""
    fget = idx.method("FileManager", "get_named_file")
    for name in names:
        try:
            got = it.call_function(fget, {"name": name}, "self")
        except Raised as r:
            return f"after {trail}: get_named_file({name!r}) raises {r.typ}"
        s = spec.names.get(name)
        if s is None:
            if got is not None:
                return f"after {trail}: {name!r} was removed/never added but get_named_file names {got!r}"
            continue
        content, src = s["versions"][-1]
        if not isinstance(got, str) or got not in fs.files:
            return f"after {trail}: get_named_file({name!r}) = {got!r}, which does not exist in the store"
        if fs.get(got) != content:
            return (f"after {trail}: get_named_file({name!r}) = {got!r} holds {fs.get(got)!r}; the most recent content registered under the name is {content!r}")
        want_base = f"{SM.MFS.sha(content)}.csv"
        if got.rpartition("/")[2] != want_base:
            return f"after {trail}: the current version is stored as {got.rpartition('/')[2]!r}; documented sha256(bytes).ext = {want_base!r}"
        mp = f"{IN}/{name}/manifest.json"
        man = fs.get(mp) if mp in fs.files else None
        if isinstance(man, str):
            import json
            man = json.loads(man)
        if not isinstance(man, list) or len(man) != s["entries"]:
            return (f"after {trail}: the manifest of {name!r} has {len(man) if isinstance(man, list) else man!r} entries; documented {s['entries']} "
                    "(one per registration that changes the current version — different bytes or source file name — none for a repeat)")
        if man and man[-1].get("fingerprint") != SM.MFS.sha(content):
            return f"after {trail}: the last manifest entry of {name!r} carries fingerprint {man[-1].get('fingerprint')!r}, not that of the current bytes"
        if man and man[-1].get("file") != got:
            return f"after {trail}: the manifest registers {man[-1].get('file')!r} but get_named_file names {got!r}"
        for (c2, s2) in s.get("all", ()):
            p2 = f"{IN}/{name}/{s2}/{SM.MFS.sha(c2)}.csv"
            if p2 not in fs.files or fs.get(p2) != c2:
                return (f"after {trail}: version {c2!r} registered from {s2} is no longer on disk unmodified "
                        f"({'missing' if p2 not in fs.files else 'now holds ' + repr(fs.get(p2))}); registered content must be immune to later edits of the source")
    # every hash-named file holds the bytes of its name
    for p in fs.files:
        if p.startswith(IN + "/") and p.endswith(".csv"):
            base = p.rpartition("/")[2][:-4]
            if len(base) == 64 and SM.MFS.sha(fs.get(p)) != base:
                return f"after {trail}: {p} no longer holds the bytes its name is the SHA-256 of"
    return None


def run_sequences(idx, maxlen, names=("n1",), srcs=("s1.csv", "s2.csv"), contents=("A", "B")):
    fadd = idx.method("FileManager", "add_named_file")
    frem = idx.method("FileManager", "remove_named_file")
    ops = [("add", n, s, c) for n in names for s in srcs for c in contents] + [("edit", s) for s in srcs] + [("remove", n) for n in names] + [("new",)]
    checked = 0
    init = initial_store(idx)
    for L in range(1, maxlen + 1):
        for seq in itertools.product(ops, repeat=L):
            if seq[0][0] in ("edit", "remove", "new"):
                continue
            fsbox = [SM.MFS()]
            fs = fsbox[0]
            fs.dirs.add(IN)
            fs.dirs.add("SRC")
            it = make(idx, fsbox)
            spec = Spec()
            msg = None

            def program(it, seq=seq, fs=fs, spec=spec):
                trail = []
                for op in seq:
                    trail.append(op)
                    if op[0] == "add":
                        _, n, s, c = op
                        fs.put(f"SRC/{s}", c)
                        it.call_function(fadd, {"name": n, "path": f"SRC/{s}"}, "self")
                        spec.add(n, s, c)
                    elif op[0] == "edit":
                        if f"SRC/{op[1]}" in fs.files:
                            fs.put(f"SRC/{op[1]}", "EDITED")
                    elif op[0] == "remove":
                        if op[1] in spec.names:
                            it.call_function(frem, {"name": op[1]}, "self")
                            spec.remove(op[1])
                    elif op[0] == "new":
                        for k, v in initial_store(idx).items():
                            it.store[k] = v
                    m = check_state(idx, it, fs, spec, names, trail)
                    if m:
                        return m
                return None

            ps = it.run_program(program, dict(init))
            checked += 1
            for p in ps:
                if p.result[0] == "raise":
                    return checked, f"sequence {seq}: the store code raises {p.result[1]}"
                if p.result[1]:
                    return checked, p.result[1]
            if len(ps) != 1:
                return checked, f"sequence {seq}: the store code is not deterministic on the model ({len(ps)} paths: {ps[0].summary()['choices'][:3]})"
    return checked, None


def run(idx, rep, tier):
    rep.explanation = (
        "FileManager.add_named_file/get_named_file/remove_named_file with FileRegistrar are interpreted at AST level on a model file system "
        "(inodes, so hard links are visible) over every operation sequence up to length 3 (thorough 4) of add/edit-source/remove/new-instance "
        "and compared after every step with an abstract content-addressed store; inventory of destructive file operations in managers/files; "
        "no in-memory registry in the manager/registrar instances. Bounded: one name, two source files, two contents (thorough: two names).")
    rep.rule("R1", "the store behaves as the abstract versioned content-addressed store on all bounded operation sequences")
    rep.rule("R2", "destructive file operations are the listed ones")
    rep.rule("R3", "no per-instance registry or manifest memo")
    fm = idx.cls("FileManager")
    for m in ("add_named_file", "_copy_in", "_fingerprint", "get_named_file", "remove_named_file", "assure_file_home", "named_file_home"):
        rep.analysed(fm.methods[m])
    fr = idx.cls("FileRegistrar")
    for m in ("register_complete", "metadata_update", "manifest_path", "get_manifest", "registered_file", "get_fingerprint"):
        rep.analysed(fr.methods[m])
    names = ("n1", "n2") if tier == "thorough" else ("n1",)
    n, msg = run_sequences(idx, 3, names=names)
    if tier == "thorough" and msg is None:
        n2, msg = run_sequences(idx, 5, names=("n1",))
        n += n2
    if msg is None:
        # source file names that differ only in case are different source files
        n3, msg = run_sequences(idx, 2, names=("n1",), srcs=("Data.csv", "data.csv"), contents=("A",))
        n += n3
    rep.check(msg is None, "R1", "csvpath/managers/files/file_manager.py::named-files store sequences", msg or f"{n} operation sequences", "csvpath/managers/files/file_manager.py")
    rep.stats["table_rows"] = n
    rep.stats["exhaustive"] = True
    rep.sample({"rule": "R1", "sequences": n, "ops": "add(name,src,content) | edit(src) | remove(name) | new-instance"})
    r2(idx, rep)
    r3(idx, rep)
    K.guard_flags(idx, rep, "R3")
    distribute(idx, rep, "R3")


def distribute(idx, rep, rid):
    """Registrar.distribute_update: the registrar is its own first listener — its metadata_update is the manifest write.  Every listener is
    told, in order; and when the registrar's own update fails the failure reaches the caller (add_named_file must not return normally
    after the manifest write failed: the name would silently keep serving the old version)"""
    fi = idx.method("Registrar", "distribute_update")
    rep.analysed(fi)
    bad = None
    base = K.instance_store(idx, "Registrar")
    for own_fails in (False, True):
        def upd(i, c, r, a, k, own_fails=own_fails):
            who = r.name if isinstance(r, Obj) else str(r)
            i.record_call("told", who)
            if own_fails and who == "self":
                raise Raised("OSError")

        it = Interp(idx, types={"self": "Registrar"}, unknown_calls="residual", handlers={".metadata_update": upd, "self.metadata_update": upd})
        st = dict(base)
        st["self.listeners"] = [Obj("self"), Obj("l1"), Obj("l2")]
        ps = it.run_all(fi, args={"mdata": Obj("md")}, store=st)
        for p in ps:
            told = [c[1] for c in p.calls("told")]
            if not own_fails and (p.result[0] != "return" or told != ["self", "l1", "l2"]):
                bad = bad or f"three listeners: told {told} ({p.result}); documented the registrar itself first, then every listener in order"
            if own_fails and p.result[0] != "raise":
                bad = bad or f"the registrar's own manifest write raises OSError and distribute_update {p.result[0]}s: the failure must reach the caller of add_named_file / add_named_paths"
    rep.check(bad is None, rid, f"{fi.file}::Registrar.distribute_update tells every listener; its own failure propagates", bad or "", K.where(fi, fi.node))


DESTRUCTIVE = {
    "FileManager.remove_named_file": {"rmtree"},
    "FileManager._copy_in": {"copy"},
    "FileManager._copy_down": {"open:w"},
    "FileManager._fingerprint": {"remove", "rename"},
    "FileManager.assure_named_file_home": {"makedirs"},
    "FileManager.assure_file_home": {"makedirs"},
    "FileManager.named_files_dir": {"makedirs"},
    "FileRegistrar.manifest_path": {"open:w"},
    "FileRegistrar.metadata_update": {"open:w"},
    "FileCacher._cache_lines_and_headers": set(),
}


def r2(idx, rep):
    n = 0
    for fi in idx.all_funcs("csvpath/managers/files/"):
        ops = set()
        for c in walk_no_nested(fi.node):
            if not isinstance(c, ast.Call):
                continue
            nm = call_name(c)
            recv = K.call_receiver(c) or ""
            if nm == "open" and isinstance(c.func, ast.Name):
                mode = c.args[1].value if len(c.args) > 1 and isinstance(c.args[1], ast.Constant) else next((k.value.value for k in c.keywords if k.arg == "mode" and isinstance(k.value, ast.Constant)), "r")
                if any(ch in mode for ch in "wax+"):
                    ops.add("open:w")
            elif recv in ("os", "shutil") and nm in ("remove", "rename", "rmtree", "copy", "copyfile", "copy2", "move", "link", "symlink", "unlink", "replace", "makedirs", "mkdir", "rmdir", "truncate"):
                ops.add(nm)
        if not ops:
            continue
        n += 1
        allowed = DESTRUCTIVE.get(fi.qual)
        key = f"{fi.file}::{fi.qual} file operations {sorted(ops)}"
        if allowed is None:
            rep.fail("R2", key, "a new function in managers/files changes files on disk; the store is immutable apart from the listed operations", K.where(fi, fi.node))
        else:
            rep.check(ops <= allowed, "R2", key, f"performs {sorted(ops - allowed)} beyond the listed {sorted(allowed)} (e.g. a hard link shares bytes with the caller's file; a rename without the exists-guard overwrites a version)", K.where(fi, fi.node))
    rep.floor("R2", 6, "functions with file operations")
    # the rename to the hash name happens only when that name does not exist yet
    ff = idx.method("FileManager", "_fingerprint")
    ren = [c for c in walk_no_nested(ff.node) if isinstance(c, ast.Call) and call_name(c) == "rename"]
    ok = len(ren) == 1
    if ok:
        g = K.guard_of(ff, ren[0])
        ok = K.implies(g, K.formula("not b"))[0] or "exists" in K.G.show(g)
    rep.check(ok, "R2", f"{ff.file}::FileManager._fingerprint rename only onto a free hash name", "", K.where(ff, ff.node))


def _scoped_or_cleared(fn, target, value, stmt):
    """a store on the instance that cannot outlive the operation: it stores None (clearing a slot), or it is a hand-over slot — the very
    next statement is a `try` whose `finally` puts None back into the same attribute, so the slot is empty again on every exit"""
    if not isinstance(target, ast.Attribute):
        return False
    def is_none(v):
        return isinstance(v, ast.Constant) and v.value is None
    if is_none(value):
        return True
    if isinstance(stmt, ast.Assign) and isinstance(stmt.targets[0], ast.Tuple) and isinstance(stmt.value, ast.Tuple) and len(stmt.targets) == 1:
        for t1, v1 in zip(stmt.targets[0].elts, stmt.value.elts):
            if t1 is target:
                return is_none(v1)
    for blk in ast.walk(fn):
        for fld in ("body", "orelse", "finalbody"):
            body = getattr(blk, fld, None)
            if isinstance(body, list) and stmt in body:
                i = body.index(stmt)
                nxt = body[i + 1] if i + 1 < len(body) else None
                if isinstance(nxt, ast.Try) and nxt.finalbody:
                    for f_ in nxt.finalbody:
                        if (isinstance(f_, ast.Assign) and len(f_.targets) == 1 and isinstance(f_.targets[0], ast.Attribute) and unparse(f_.targets[0]) == unparse(target)
                                and is_none(f_.value)):
                            return True
    return False


def r3(idx, rep):
    for cls in ("FileManager", "FileRegistrar"):
        ci = idx.cls(cls)
        init = ci.methods["__init__"]
        attrs = {t.attr: unparse(v) for t, v, s in stores_in(init.node) if isinstance(t, ast.Attribute)}
        containers = {a: v for a, v in attrs.items() if v in ("{}", "[]", "dict()", "list()", "set()")}
        rep.check(not containers, "R3", f"{ci.file}::{cls}.__init__ keeps no registry", f"instance containers {containers}: state held in memory is invisible to a fresh instance and survives remove_named_file", K.where(init, init.node))
        # no method memoises into self outside __init__ (other than the listed wiring)
        for mname, m in ci.methods.items():
            if mname == "__init__":
                continue
            w = [unparse(t) for t, v, s in stores_in(m.node) if isinstance(t, (ast.Attribute, ast.Subscript)) and unparse(t).startswith("self.")
                 and not _scoped_or_cleared(m.node, t, v, s)]
            rep.check(not w, "R3", f"{m.file}::{cls}.{mname} stores nothing on the instance", f"{w}", K.where(m, m.node))
