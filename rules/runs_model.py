"""Decision tables of the six named-paths run methods of CsvPaths by abstract interpretation
(C08, C09.R3, C10.R1, C18.R1/R2, C20.R1/R2, C03.R6, C02).

Serial methods (collect_paths / fast_forward_paths / next_paths): 2 members; each member's load and run may
raise; the error handler may re-raise (policy 'raise') or swallow.
Breadth-first (next_by_line): 2 members x up to 3 lines; each consideration returns matched/unmatched, may stop
the member, may raise; an earlier member may fire skip_all.
Every interaction with the managers is recorded as an ordered event list and compared with the run protocol.
"""
from sa.absint import Interp, Obj, Residual, Raised


def _rec(name, ret=None, keep_kwargs=False):
    def h(interp, call, recv, args, kwargs):
        interp.record_call(name, dict(kwargs) if keep_kwargs else (args[0] if args else None))
        return ret(interp) if callable(ret) else ret
    return h


def serial_rows(idx, method, members=2, collect=False):
    fi = idx.method("CsvPaths", method)
    runcall = {"collect_paths": "collect", "fast_forward_paths": "fast_forward", "next_paths": "next"}[method]

    def new_csvpath(interp, call, recv, args, kwargs):
        n = interp.path.__dict__.setdefault("ncp", 0)
        interp.path.ncp = n + 1
        interp.record_call("csvpath()", n)
        return Obj(f"cp{n}")

    def new_result(interp, call, recv, args, kwargs):
        n = interp.path.__dict__.setdefault("nres", 0)
        interp.path.nres = n + 1
        interp.record_call("Result()", dict(kwargs))
        return Obj(f"res{n}")

    def load(interp, call, recv, args, kwargs):
        cp = kwargs.get("csvpath")
        interp.record_call("_load_csvpath", dict(kwargs))
        if interp.choose(f"load({cp.name}) raises", [False, True], memo=False):
            raise Raised("ValueError")

    def run(interp, call, recv, args, kwargs):
        interp.record_call("run", recv.name)
        interp.record_call("run-args", (recv.name, dict(kwargs)))
        interp.record_call("run-collecting", (recv.name, interp.store.get(f"{recv.name}.collecting")))
        # whatever the run keeps as unmatched lines is there from now on, also when the run ends with an exception
        interp.store[f"{recv.name}.unmatched"] = Obj(f"UNM:{recv.name}")
        if interp.choose(f"run({recv.name}) raises", [False, True], memo=False):
            raise Raised("ValueError")
        return [Residual(f"{recv.name}.L0")] if runcall == "next" else None

    def handler_ctor(interp, call, recv, args, kwargs):
        interp.record_call("ErrorHandler()", dict(kwargs))
        return Obj("eh")

    def handle_error(interp, call, recv, args, kwargs):
        interp.record_call("handle_error")
        if interp.choose("handler re-raises", [False, True], memo=False):
            raise Raised("MatchException")

    def save(interp, call, recv, args, kwargs):
        res = args[0] if args else None
        interp.record_call("save", res)
        if isinstance(res, Obj):
            interp.record_call("saved-unmatched", (res.name, interp.store.get(f"{res.name}.unmatched")))

    handlers = {
        "self.paths_manager.get_named_paths": lambda i, c, r, a, k: [f"p{j}" for j in range(members)],
        "self.file_manager.get_named_file": lambda i, c, r, a, k: "file.csv",
        "self.clean": _rec("clean"),
        "self.clear_run_coordination": _rec("clear_run_coordination"),
        "self.run_time_str": _rec("run_time_str", ret="RUNDIR"),
        "self.results_manager.start_run": _rec("start_run", keep_kwargs=True),
        "self.results_manager.add_named_result": _rec("add_named_result"),
        "self.results_manager.save": save,
        "self.results_manager.complete_run": _rec("complete_run", keep_kwargs=True),
        "self.csvpath": new_csvpath,
        "Result": new_result,
        "self._load_csvpath": load,
        "." + runcall: run,
        "ErrorHandler": handler_ctor,
        "eh.handle_error": handle_error,
        ".append": lambda i, c, r, a, k: i.record_call("result.append", (r.name, getattr(a[0], "text", a[0]))),
    }
    it = Interp(idx, types={"self": "CsvPaths"}, unknown_calls="residual", handlers=handlers, inline_all={"CsvPaths"},
                domains={"self._skip_all": [False], "self._stop_all": [False], "self._advance_all": [0], "self._fail_all": [False],
                         "self.current_run_time": [Residual("RUNTIME")]})
    args = {"pathsname": "P", "filename": "F"}
    if method == "next_paths":
        args["collect"] = collect
    paths = it.run_all(fi, args=args)
    return fi, paths


def events(p, names=None):
    ev = [(kk, v) for k, kk, v in p.trace if k == "call" and (names is None or kk in names)]
    return ev


# ---------------------------------------------------------------------------------------------- breadth first
def byline_rows(idx, nlines=3, scenario="plain", collect=False, members=2):
    """scenario: 'plain' (votes + stops, no signals, no exceptions), 'norun' (plain, but member 1 has run-mode: no-run), 'keep' (plain without stops, every member has unmatched-mode: keep), 'skipall' (member 0 may fire skip_all),
    'abort' (a consideration may raise; handler may re-raise)"""
    fi = idx.method("CsvPaths", "next_by_line")

    def load_objects(interp, call, recv, args, kwargs):
        interp.record_call("_load_csvpath_objects", dict(kwargs))
        return [[Obj(f"cp{j}"), []] for j in range(members)]

    def prep(interp, call, recv, args, kwargs):
        interp.record_call("_prep_csvpath_results")
        for j, pair in enumerate(kwargs["csvpath_objects"]):
            pair[1] = Obj(f"res{j}")

    def consider(interp, call, recv, args, kwargs):
        line = args[0]
        ln = line.text if isinstance(line, Residual) else str(line)
        interp.record_call("_consider_line", (recv.name, ln))
        interp.record_call("consider-collecting", (recv.name, interp.store.get(f"{recv.name}.collecting")))
        if scenario == "abort":
            if interp.choose(f"consider({recv.name},{ln}) raises", [False, True], memo=False):
                raise Raised("ValueError")
            return True
        if scenario in ("stops_a", "stops_b"):
            matched = True
        else:
            matched = interp.choose(f"matched({recv.name},{ln})", [True, False], memo=False)
        may_stop = (recv.name == "cp0") if scenario in ("plain", "stops_a", "norun") else False
        if scenario in ("plain2", "stops_b"):
            may_stop = recv.name == "cp1"
        if may_stop and interp.choose(f"stops({recv.name},{ln})", [False, True], memo=False):
            interp.store[f"{recv.name}.stopped"] = True
        if scenario == "skipall" and recv.name == "cp0":
            if interp.choose(f"skip_all({ln})", [False, True], memo=False):
                interp.store["self._skip_all"] = True
        return matched

    def track(interp, call, recv, args, kwargs):
        line = args[0] if args else kwargs.get("line")
        interp.record_call("track_line", (recv.name, line.text if isinstance(line, Residual) else str(line)))

    def handler_ctor(interp, call, recv, args, kwargs):
        interp.record_call("ErrorHandler()", dict(kwargs))
        return Obj("eh")

    def handle_error(interp, call, recv, args, kwargs):
        interp.record_call("handle_error")
        if interp.choose("handler re-raises", [False, True], memo=False):
            raise Raised("MatchException")

    handlers = {
        "self.clean": _rec("clean"),
        "self.file_manager.get_named_file": lambda i, c, r, a, k: "file.csv",
        "self.paths_manager.get_named_paths": lambda i, c, r, a, k: [f"p{j}" for j in range(members)],
        "self._load_csvpath_objects": load_objects,
        "self._prep_csvpath_results": prep,
        "FileManager.get_reader": _rec("get_reader", ret=Obj("reader"), keep_kwargs=True),
        "self.file_manager.get_reader": _rec("get_reader", ret=Obj("reader"), keep_kwargs=True),
        "self.file_manager.get_named_file_reader": _rec("get_named_file_reader", ret=Obj("reader"), keep_kwargs=True),
        "DataFileReader": _rec("DataFileReader", ret=Obj("reader"), keep_kwargs=True),
        "reader.next": lambda i, c, r, a, k: [Residual(f"L{j}") for j in range(nlines)],
        "._consider_line": consider,
        ".track_line": track,
        # a member's collect() projection is that member's own: the line the next member considers and the line the caller gets stay the reader's
        "._limit_unmatched": lambda i, c, r, a, k: Residual(f"limited[{getattr(r, 'name', getattr(r, 'text', r))}]({a[0].text if isinstance(a[0], Residual) else a[0]})"),
        ".limit_collection": lambda i, c, r, a, k: Residual(f"limited[{getattr(r, 'name', getattr(r, 'text', r))}]({a[0].text if isinstance(a[0], Residual) else a[0]})"),
        "self.results_manager.save": _rec("save"),
        "self.results_manager.complete_run": _rec("complete_run", keep_kwargs=True),
        "self.clear_run_coordination": _rec("clear_run_coordination"),
        "ErrorHandler": handler_ctor,
        "eh.handle_error": handle_error,
    }
    for j in range(members):
        handlers[f"res{j}.append"] = (lambda i, c, r, a, k, j=j: i.record_call("collected", (f"cp{j}", a[0].text if isinstance(a[0], Residual) else str(a[0]))))
    out = []
    for agree in (False, True):
        types = {"self": "CsvPaths"}
        types.update({f"cp{j}": "CsvPath" for j in range(members)})   # (a method of the member that the reference tree does not have is followed)
        it = Interp(idx, types=types, unknown_calls="residual", handlers=handlers, inline_all={"CsvPaths"},
                    domains={"self._stop_all": [False], "self._fail_all": [False]})
        store = {"self._skip_all": False, "self._advance_all": 0}
        for j in range(members):
            store[f"cp{j}.stopped"] = False
            store[f"cp{j}.advance_count"] = 0
            # run-mode: in scenario 'norun' the second member is switched off (run-mode: no-run)
            store[f"cp{j}.will_run"] = not (scenario == "norun" and j == 1)
            # unmatched-mode: in scenario 'keep' every member keeps the lines it did not match (when the caller collects)
            store[f"cp{j}.unmatched_available"] = scenario == "keep"
            store[f"cp{j}.unmatched"] = None
        args = {"pathsname": "P", "filename": "F", "collect": collect, "if_all_agree": agree, "collect_when_not_matched": False}
        for p in it.run_all(fi, args=args, store=store):
            p.__dict__["collect"] = collect
            p.__dict__["members"] = members
            out.append((agree, p))
    return fi, out
