"""Exhaustive decision table of CsvPath._consider_line by abstract interpretation
(shared by C01.R4, C02.R4, C03.R2, C13.R2/R3, C15.R3).

Abstract world: blank-last-line test, skip_blank_lines, len(line)==0, scanner.includes,
advance_count ∈ {0,1,2}, the match verdict ∈ {True, False, None}, scanner.is_last,
collect_when_not_matched.  Effects observed: stores to scan_count / advance_count /
_current_match_count / _freeze_path, calls of matches / stop / raise_match_count_if, return value.
"""
from sa.absint import Interp, Obj, Residual

BLANK_LAST = "self.line_monitor.is_last_line_and_blank(line)"
INCLUDES = "self.scanner.includes(self.line_monitor.physical_line_number)"
IS_LAST = "self.scanner.is_last(self.line_monitor.physical_line_number)"


def rows(idx):
    fi = idx.method("CsvPath", "_consider_line")

    def h_matches(interp, call, recv, args, kwargs):
        interp.record_call("matches", None)
        return interp.choose("matches()", [True, False, None], memo=False)

    def rec(name):
        def h(interp, call, recv, args, kwargs):
            interp.record_call(name, None)
        return h

    out = []
    for adv in (0, 1, 2):
        it = Interp(idx, types={"self": "CsvPath"},
                    domains={BLANK_LAST: [False, True], "self.skip_blank_lines": [True, False], INCLUDES: [True, False],
                             IS_LAST: [False, True], "self.collect_when_not_matched": [False, True]},
                    handlers={"self.matches": h_matches, "self.stop": rec("stop"), "self.raise_match_count_if": rec("raise_match_count_if")})
        store = {"self.advance_count": adv, "self.scan_count": 5, "self.match_count": 3, "self._current_match_count": 0}
        for p in it.run_all(fi, args={"line": Residual("line")}, store=store):
            out.append((adv, p))
    return fi, out


def facts(adv, p):
    """normalised observation of one path"""
    blank = p.atom("len(line) == 0")
    d = dict(
        adv=adv,
        blank_last=p.atom(BLANK_LAST),
        skip_blank=p.atom("self.skip_blank_lines"),
        empty=blank,
        includes=p.atom(INCLUDES),
        is_last=p.atom(IS_LAST),
        cwnm=p.atom("self.collect_when_not_matched"),
        vote=p.atom("matches()", "not-called"),
        n_matches=len(p.calls("matches")),
        n_stop=len(p.calls("stop")),
        n_raise=len(p.calls("raise_match_count_if")),
        scan_sets=p.sets("self.scan_count"),
        adv_sets=p.sets("self.advance_count"),
        cmc_sets=p.sets("self._current_match_count"),
        freeze_sets=p.sets("self._freeze_path"),
        result=p.result,
        order=[(k, kk) for k, kk, v in p.trace if k in ("call", "set")],
    )
    return d
