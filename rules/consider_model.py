"""Exhaustive decision table of CsvPath._consider_line by abstract interpretation
(shared by C01.R4, C02.R4, C03.R2, C13.R2/R3, C15.R3).

Abstract world (enumerated eagerly, so that a path which fails to consult an input is still judged for both
of its values): blank-last-line test, skip_blank_lines, blank record, scanner.includes, advance_count ∈ {0,1,2},
the match verdict ∈ {True, False, None}, scanner.is_last, collect_when_not_matched.
Effects observed: stores to scan_count / advance_count / _current_match_count / _freeze_path, calls of
matches / stop / raise_match_count_if, return value.
"""
import itertools

from sa.absint import Interp, Obj, Residual
from sa.index import AnalysisError
from . import common as K

BLANK_LAST = "blank_last"
INCLUDES = "includes"
IS_LAST = "is_last"


def rows(idx):
    fi = idx.method("CsvPath", "_consider_line")
    out = []
    for blank_last, skip_blank, empty, includes, is_last, cwnm, adv, vote in itertools.product(
            (False, True), (True, False), (False, True), (True, False), (False, True), (False, True), (0, 1, 2), (True, False, None)):
        if blank_last and not empty:
            continue  # a blank last line is blank
        cfg = dict(blank_last=blank_last, skip_blank=skip_blank, empty=empty, includes=includes, is_last=is_last, cwnm=cwnm, adv=adv, vote=vote)

        def h_matches(interp, call, recv, args, kwargs, vote=vote):
            interp.record_call("matches", None)
            return vote

        def rec(name):
            def h(interp, call, recv, args, kwargs):
                interp.record_call(name, None)
            return h

        def const(name, v):
            def h(interp, call, recv, args, kwargs):
                interp.record_call("consult:" + name)
                return v
            return h

        it = Interp(idx, types={"self": "CsvPath"}, inline_all={"CsvPath"},
                    handlers={"self.matches": h_matches, "self.stop": rec("stop"), "self.raise_match_count_if": rec("raise_match_count_if"),
                              "self.line_monitor.is_last_line_and_blank": const("blank_last", blank_last),
                              "self.scanner.includes": const("includes", includes), "self.scanner.is_last": const("is_last", is_last)})
        store = {"self.advance_count": adv, "self.scan_count": 5, "self.match_count": 3, "self." + K.names(idx)["cmc"]: 0,
                 "self.skip_blank_lines": skip_blank, "self.collect_when_not_matched": cwnm}
        line = [] if empty else ["x", "y"]
        ps = it.run_all(fi, args={"line": line}, store=K.seed_aliases(idx, "CsvPath", store))
        if len(ps) != 1:
            raise AnalysisError(f"_consider_line depends on something outside the model: {ps[0].summary()['choices']}")
        ps[0].cfg = cfg
        ps[0].__dict__["names"] = K.names(idx)
        out.append((adv, ps[0]))
    return fi, out


def facts(adv, p):
    """normalised observation of one path"""
    c = p.cfg
    d = dict(
        adv=adv,
        blank_last=c["blank_last"],
        skip_blank=c["skip_blank"],
        empty=c["empty"],
        includes=c["includes"],
        is_last=c["is_last"],
        cwnm=c["cwnm"],
        vote=c["vote"] if p.calls("matches") else "not-called",
        n_matches=len(p.calls("matches")),
        n_stop=len(p.calls("stop")),
        n_raise=len(p.calls("raise_match_count_if")),
        scan_sets=p.sets("self.scan_count"),
        adv_sets=p.sets("self.advance_count"),
        cmc_sets=p.sets("self." + p.__dict__.get("names", {}).get("cmc", "_current_match_count")),
        freeze_sets=p.sets("self." + p.__dict__.get("names", {}).get("frozen", "_freeze_path")),
        result=p.result,
        # (the freeze store is reported under its canonical name whatever the attribute is called today)
        order=[(k, "self._freeze_path" if kk == "self." + p.__dict__.get("names", {}).get("frozen", "_freeze_path") else kk) for k, kk, v in p.trace if k in ("call", "set") and not kk.startswith("consult:")],
    )
    return d
