"""C10 — every run gets its own run directory and never touches an earlier run's results.

  R1 run-scoped state     the run time and the run-directory name are reset together, on entry of every run method, before
                          the run is named (tables shared with C08.R5); run_time_str / current_run_time cache tables
  R2 unused directory     ResultSerializer.get_run_dir interpreted on model file systems: the returned path is never an existing one
  R3 names sort by time   writer strftime format == reader strptime base format; only zero-padded fields in descending significance
  R4 writes stay inside   inventory of file-writing sites in managers/results, managers/run, util/line_spooler.py and the root of
                          each written path (run dir / instance dir / manifest of this run)
  R5 :last / :first       _find_in_dir_names table on model directory listings (incl. 12:59→13:00, midnight, same-second suffixes)
"""
import ast
import datetime
import itertools
import re

from sa.index import AnalysisError, unparse, walk_no_nested, call_name, dotted
from sa.absint import Interp, Obj, Residual, Raised
from sa.flow import Must
from . import common as K
from . import c08


def run(idx, rep, tier):
    rep.explanation = (
        "Run-scoped state: decision tables of the run methods show the reset of run coordination precedes the naming of the run on every "
        "path, and clear_run_coordination resets both the run time and the derived directory name; cache tables of run_time_str and "
        "current_run_time. ResultSerializer.get_run_dir and ResultsManager._find_in_dir_names are interpreted (AST) on model file "
        "systems / directory listings — up to 13 same-second runs, clock crossing 12:59→13:00 and midnight. Format agreement and "
        "lexicographic = chronological order of the strftime format. Inventory of file-writing sites and the root of the written path. "
        "Byte-identity of earlier runs' files is not decided beyond 'no write site targets anything outside the current run directory'.")
    rep.rule("R1", "run time and run directory name are reset on entry of every run, before the run is named")
    rep.rule("R2", "get_run_dir never returns an existing directory")
    rep.rule("R3", "run directory names are zero-padded, 24-hour, descending significance; reader format == writer format")
    rep.rule("R4", "archive writes target only the current run/instance directory or a manifest of this run")
    rep.rule("R5", ":last/:first pick the latest/earliest run with the prefix")
    run_state(idx, rep, "R1")
    r2(idx, rep)
    r3(idx, rep)
    r4(idx, rep)
    r5(idx, rep)
    # ':last' means the most recent run *now*: FileManager keeps no memo of resolved references, and the reference is split into
    # group / run / member at the first marker (C20's ReferenceParser table)
    from . import c11, c20
    c11.r3(idx, K.as_rule(rep, "R5"))
    c20.r5(idx, K.as_rule(rep, "R5", keep=lambda k: "ReferenceParser table" in k))
    rep.stats["exhaustive"] = True


def run_state(idx, rep, rid):
    # (a) serial run methods: protocol tables (clear before run_time_str) — shared with C08.R5
    c08.serial(idx, rep, rid, aspects=("protocol",))
    # (b) breadth-first: _prep_csvpath_results names the run; the reset must dominate that call
    fp = idx.method("CsvPaths", "_prep_csvpath_results")
    rep.analysed(fp)
    # interpreted (private helpers followed): on every path the first naming of the run is preceded by the reset
    it0 = Interp(idx, types={"self": "CsvPaths"}, unknown_calls="residual",
                 handlers={"self.clear_run_coordination": lambda i, c, r, a, k: i.record_call("reset"), "self.run_time_str": lambda i, c, r, a, k: (i.record_call("name"), "RUNDIR")[1],
                           "Result": lambda i, c, r, a, k: Obj("res"), "ErrorHandler": lambda i, c, r, a, k: Obj("eh")})
    okp = True
    named = 0
    for p in it0.run_all(fp, args={"csvpath_objects": [[Obj("cp0"), []], [Obj("cp1"), []]], "filename": "F", "pathsname": "P"}):
        ev = [kk for k, kk, v in p.trace if k == "call" and kk in ("reset", "name")]
        if "name" in ev:
            named += 1
            if "reset" not in ev[:ev.index("name")]:
                okp = False
    if not okp and named > 0 and K.reset_before_every_call(idx, fp, "clear_run_coordination"):
        okp = True   # (the reset stands in the callers, before the preparation is entered)
    rep.check(okp and named > 0, rid,
              f"{fp.file}::CsvPaths._prep_csvpath_results resets before naming the run",
              "run_time_str() is reached without a preceding clear_run_coordination(): a reused instance (or one whose previous run aborted) would write into the earlier run's directory", K.where(fp, fp.node))
    fb = idx.method("CsvPaths", "next_by_line")
    calls = [n for n in walk_no_nested(fb.node) if isinstance(n, ast.Call) and call_name(n) == "_prep_csvpath_results"]
    rep.check(len(calls) == 1 and K.guard_of(fb, calls[0]) != K.G.FALSE, rid, f"{fb.file}::CsvPaths.next_by_line prepares results once", f"{len(calls)} call(s)", K.where(fb, fb.node))
    # (c) clear_run_coordination resets the run time and everything derived from it
    fc = idx.method("CsvPaths", "clear_run_coordination")
    rep.analysed(fc)
    it = Interp(idx, types={"self": "CsvPaths"}, unknown_calls="residual")
    ps = it.run_all(fc, store={"self._current_run_time": "T", "self._run_time_str": "D", "self._stop_all": True, "self._fail_all": True, "self._skip_all": True, "self._advance_all": 3})
    fs = ps[0].final_store if len(ps) == 1 else {}
    want = {"self._current_run_time": None, "self._run_time_str": None, "self._stop_all": False, "self._fail_all": False, "self._skip_all": False, "self._advance_all": 0}
    diff = {k: fs.get(k) for k in want if fs.get(k) != want[k]}
    rep.check(len(ps) == 1 and not diff, rid, f"{fc.file}::CsvPaths.clear_run_coordination resets all run-scoped state",
              f"left set after the reset: {diff} (the run directory name is derived from the run time: both must be cleared together)", K.where(fc, fc.node))
    # every attribute cached under `if self._x is None` in CsvPaths that derives from run state is reset there
    # (d) run_time_str cache table
    fr = idx.method("CsvPaths", "run_time_str")
    rep.analysed(fr)
    bad = None
    for cached, pn in itertools.product((None, "D"), (None, "P")):
        it = Interp(idx, types={"self": "CsvPaths"}, unknown_calls="residual",
                    handlers={"self.results_manager.get_run_time_str": lambda i, c, r, a, k: (i.record_call("get_run_time_str", a), "NEW")[1]},
                    domains={"self.current_run_time": [Residual("NOW")]})
        ps = it.run_all(fr, args={"pathsname": pn}, store={"self._run_time_str": cached})
        p = ps[0]
        if cached is None and pn is None:
            if p.result[0] != "raise":
                bad = bad or "no cached name and no pathsname: must raise"
        elif cached is None:
            calls = p.calls("get_run_time_str")
            if p.result != ("return", "NEW") or len(calls) != 1 or calls[0][1][0] != "P" or calls[0][1][1] != Residual("NOW") or p.final_store["self._run_time_str"] != "NEW":
                bad = bad or f"first call: {p.result}, calls {calls}"
        else:
            if p.result != ("return", "D") or p.calls("get_run_time_str"):
                bad = bad or f"cached name: {p.result}"
    rep.check(bad is None, rid, f"{fr.file}::CsvPaths.run_time_str cache table", bad or "", K.where(fr, fr.node))
    fcur = idx.method("CsvPaths", "current_run_time")
    rep.analysed(fcur)
    bad = None
    for cached in (None, "T"):
        it = Interp(idx, types={"self": "CsvPaths"}, unknown_calls="residual", handlers={"datetime.now": lambda i, c, r, a, k: "NOW"})
        ps = it.run_all(fcur, store={"self._current_run_time": cached})
        want = "NOW" if cached is None else "T"
        if len(ps) != 1 or ps[0].result != ("return", want) or ps[0].final_store["self._current_run_time"] != want:
            bad = f"cached={cached!r}: {ps[0].result}"
    rep.check(bad is None, rid, f"{fcur.file}::CsvPaths.current_run_time cache table", bad or "", K.where(fcur, fcur.node))
    # (e) who writes the two cached attributes
    for s in K.attr_stores(idx, {"_current_run_time", "_run_time_str"}):
        fi = s["fi"]
        okw = K.owner_of(idx, fi, {"CsvPaths.__init__", "CsvPaths.clear_run_coordination", "CsvPaths.run_time_str", "CsvPaths.current_run_time"}) is not None
        rep.check(okw, rid, f"{fi.file}::{fi.qual} writes {s['target'].attr}", f"`{unparse(s['stmt'])}`", K.where(fi, s["stmt"]))


class FS:
    def __init__(self, existing):
        self.existing = set(existing)
        self.made = []

    def handlers(self):
        def exists(i, c, r, a, k):
            return a[0] in self.existing

        def makedirs(i, c, r, a, k):
            self.made.append(a[0])
            self.existing.add(a[0])

        def listdir(i, c, r, a, k):
            pre = a[0].rstrip("/") + "/"
            return sorted({e[len(pre):].split("/")[0] for e in self.existing if e.startswith(pre)}, key=lambda x: (len(x), x))[::-1]

        def join(i, c, r, a, k):
            return "/".join(str(x) for x in a)

        def split(i, c, r, a, k):
            h, _, t = a[0].rpartition("/")
            return (h, t)

        return {"os.path.exists": exists, "os.makedirs": makedirs, "os.listdir": listdir, "os.path.join": join,
                "os.path.isdir": exists, "os.mkdir": makedirs, "os.path.split": split,
                "os.path.basename": lambda i, c, r, a, k: (a[0].rpartition("/")[2] if isinstance(a[0], str) else Residual(f"os.path.basename({a[0]})")),
                "os.path.dirname": lambda i, c, r, a, k: (a[0].rpartition("/")[0] if isinstance(a[0], str) else Residual(f"os.path.dirname({a[0]})"))}


def r2(idx, rep):
    fi = idx.method("ResultSerializer", "get_run_dir")
    rep.analysed(fi, *K.opt(idx, "ResultSerializer", "_deref_paths_name"), idx.method("ResultSerializer", "get_run_dir_name_from_datetime"))
    T = "2026-01-02_03-04-05"
    bad = None
    n = 0
    for k in list(range(0, 14)) + [25]:
        existing = ["A", "A/p"]
        if k >= 1:
            existing.append(f"A/p/{T}")
        existing += [f"A/p/{T}.{j}" for j in range(0, max(0, k - 1))]
        # another group and another second must not matter
        existing += [f"A/q/{T}", "A/p/2026-01-02_03-04-04"]
        for rt in (T, "DT"):
            fs = FS(existing)
            h = fs.handlers()
            h["self.get_run_dir_name_from_datetime"] = lambda i, c, r, a, kw: T
            it = Interp(idx, types={"self": "ResultSerializer"}, inline={"ResultSerializer._deref_paths_name"}, unknown_calls="error", handlers=h,
                        isinstance_oracle=lambda i, a, c: False)
            arg = T if rt == T else Obj("dt")
            ps = it.run_all(fi, args={"paths_name": "p", "run_time": arg}, store={"self.base_dir": "A"})
            n += 1
            if len(ps) != 1 or ps[0].result[0] != "return":
                bad = bad or f"{k} earlier same-second runs: get_run_dir ends in {[p.result for p in ps]}"
                continue
            got = ps[0].result[1]
            if got in existing:
                bad = bad or f"{k} earlier runs of group p in second {T}: get_run_dir returns {got!r}, which an earlier run already uses (its files would be overwritten)"
            elif not (isinstance(got, str) and got.startswith(f"A/p/{T}")):
                bad = bad or f"get_run_dir returns {got!r}: not under archive/<named-paths>/<run time>"
    rep.check(bad is None, "R2", f"{fi.file}::ResultSerializer.get_run_dir model file systems", bad or f"{n} file systems", K.where(fi, fi.node))
    rep.stats["table_rows"] = rep.stats.get("table_rows", 0) + n
    # names with a reference / instance suffix are dereferenced to the group name only
    fd = idx.method("ResultSerializer", "_deref_paths_name")
    bad = None
    for name, want in (("p", "p"), ("$p.csvpaths.x:from", "p"), ("p#two", "p"), ("$p.results.2026:last.one", "p")):
        it = Interp(idx, types={"self": "ResultSerializer"})
        ps = it.run_all(fd, args={"paths_name": name})
        if len(ps) != 1 or ps[0].result != ("return", want):
            bad = bad or f"_deref_paths_name({name!r}) = {ps[0].result}, expected {want!r}"
    rep.check(bad is None, "R2", f"{fd.file}::ResultSerializer._deref_paths_name table", bad or "", K.where(fd, fd.node))
    # ResultsManager.get_run_time_str passes the group name and the run time through
    calls = []
    fg, ps = K.sym_result(idx, "ResultsManager", "get_run_time_str", args={"name": "P", "run_time": "T"},
                          handlers={"ResultSerializer": lambda i, c, r, a, k: Obj("rs"), "rs.get_run_dir": lambda i, c, r, a, k: (calls.append(dict(k)), "DIR")[1]})
    rep.check(len(ps) == 1 and ps[0].result == ("return", "DIR") and calls == [{"paths_name": "P", "run_time": "T"}], "R2", f"{fg.file}::ResultsManager.get_run_time_str forwards", f"{calls}", K.where(fg, fg.node))


def _str_const(idx, fi, node):
    n = K.resolve_const(idx, fi, node)
    if isinstance(n, ast.Constant) and isinstance(n.value, str):
        return n.value
    if isinstance(node, ast.Attribute):
        # class constant
        d = dotted(node)
        if d and d.split(".")[0] in ("self", "cls") or (d and idx.has_cls(d.split(".")[0])):
            cname = fi.cls if d.split(".")[0] in ("self", "cls") else d.split(".")[0]
            for c in idx.mro(cname):
                v = c.class_assigns.get(node.attr)
                if isinstance(v, ast.Constant) and isinstance(v.value, str):
                    return v.value
    if isinstance(node, ast.Name):
        # local assigned once in the function
        vals = [v for t, v, st in K.stores_in(fi.node) if isinstance(t, ast.Name) and t.id == node.id]
        if len(vals) == 1:
            return _str_const(idx, fi, vals[0])
    return None


def formats(idx):
    fw = idx.method("ResultSerializer", "get_run_dir_name_from_datetime")
    # the writer's format: what the function hands to dt.strftime (interpreted, so a helper or a module constant may hold it)
    wf = None
    try:
        it = Interp(idx, types={"self": "ResultSerializer"}, unknown_calls="error", handlers={"dt.strftime": lambda i, c, r, a, k: ("strftime", a[0])})
        ps = it.run_all(fw, args={"dt": Obj("dt")})
        res = ps[0].result if len(ps) == 1 else None
        if res and res[0] == "return" and isinstance(res[1], tuple) and len(res[1]) == 2 and res[1][0] == "strftime" and isinstance(res[1][1], str):
            wf = res[1][1]
    except AnalysisError:
        wf = None
    if wf is None:
        w = [n for n in walk_no_nested(fw.node) if isinstance(n, ast.Call) and call_name(n) == "strftime"]
        if len(w) != 1:
            raise AnalysisError("get_run_dir_name_from_datetime: cannot determine the format handed to strftime")
        wf = _str_const(idx, fw, w[0].args[0])
    fr = idx.method("ResultsManager", "_find_in_dir_names")
    rfs = []
    # the reader's parse format(s): wherever in ResultsManager the directory names are parsed (the sort key may live in a helper)
    for m in idx.cls("ResultsManager").methods.values():
        for n in ast.walk(m.node):
            if isinstance(n, ast.Call) and call_name(n) == "strptime" and len(n.args) >= 2:
                a = n.args[1]
                if isinstance(a, ast.IfExp):
                    rfs += [_str_const(idx, m, a.body), _str_const(idx, m, a.orelse)]
                else:
                    rfs.append(_str_const(idx, m, a))
    return fw, wf, fr, rfs


def r3(idx, rep):
    fw, wf, fr, rfs = formats(idx)
    rep.analysed(fw, fr)
    if wf is None:
        raise AnalysisError(f"cannot resolve the run-directory writer format")
    # reader formats that cannot be resolved statically (or a reader that parses in another way) are judged by the R5 behaviour table
    rfs = [r for r in rfs if r is not None]
    toks = re.findall(r"%[a-zA-Z]", wf)
    order = ["%Y", "%m", "%d", "%H", "%M", "%S"]
    rep.check(toks == order, "R3", f"{fw.file}::run directory format fields",
              f"strftime format {wf!r} has fields {toks}; names order chronologically only with zero-padded fields in descending significance {order} (a 12-hour %I makes 13:00 sort before 12:59)", K.where(fw, fw.node))
    # the name of a run that has a run time is that time in the format above, on every path
    it = Interp(idx, types={"self": "ResultSerializer"}, unknown_calls="error", handlers={"dt.strftime": lambda i, c, r, a, k: ("strftime", a[0])})
    ps = it.run_all(fw, args={"dt": Obj("dt")})
    rep.check(len(ps) == 1 and ps[0].result == ("return", ("strftime", wf)), "R3", f"{fw.file}::run directory name is the formatted run time",
              f"for a run time dt the function ends in {[p.result for p in ps]}, documented dt.strftime({wf!r})", K.where(fw, fw.node))
    rep.check(not re.search(r"%-|%#", wf), "R3", f"{fw.file}::run directory format padding", f"{wf!r} uses an unpadded directive", K.where(fw, fw.node))
    base = [r for r in rfs if not r.endswith(".%f")]
    frac = [r for r in rfs if r.endswith(".%f")]
    rep.check(set(base) <= {wf}, "R3", f"{fr.file}::reader base format equals writer format", f"writer {wf!r} vs reader {base}", K.where(fr, fr.node))
    # how the '.N' same-second suffix is ordered is decided by the R5 table; here only: a fractional reader format extends the writer's
    rep.check(all(r == wf + ".%f" for r in frac), "R3", f"{fr.file}::reader suffix format", f"reader formats for '.N' names: {frac}", K.where(fr, fr.node))
    # a sample of instants sorts the same by name and by time (decided on the format, not by running the repo)
    ts = [datetime.datetime(2026, 1, 2, 12, 59, 59), datetime.datetime(2026, 1, 2, 13, 0, 0), datetime.datetime(2026, 1, 2, 23, 59, 59),
          datetime.datetime(2026, 1, 3, 0, 0, 0), datetime.datetime(2026, 1, 3, 9, 5, 7), datetime.datetime(2026, 10, 3, 1, 0, 0), datetime.datetime(2026, 2, 3, 1, 0, 0)]
    names = [t.strftime(wf) for t in ts]
    rep.check(sorted(names) == [t.strftime(wf) for t in sorted(ts)], "R3", f"{fw.file}::format orders a clock sample chronologically",
              f"{sorted(names)}", K.where(fw, fw.node))


WRITE_SITES = {
    # function -> allowed *ultimate* roots of the written path (locals resolved through their assignments; parameters, attributes
    # and producing calls are what remains)
    "ResultSerializer._save": {"call:get_instance_dir", "param:run_dir"},
    "ResultSerializer.get_run_dir": {"self.base_dir"},
    "ResultSerializer.get_instance_dir": {"param:run_dir"},
    "ResultRegistrar.metadata_update": {"self.manifest_path"},
    "ResultRegistrar.manifest": {"self.manifest_path"},
    "ResultRegistrar.result_path": {"self.result.run_dir", "self.result_serializer.get_instance_dir", "call:get_instance_dir"},
    "ResultsRegistrar.metadata_update": {"mdata.manifest_path"},
    "ResultsRegistrar.manifest_path": {"self.run_dir"},
    "ResultsManager._do_transfers": {"t[3]", "param:transfers", "call:transfer_paths"},       # transfer-mode: writes under the configured transfer root, by design
    "ResultsManager._path_to_transfer_to": {"result.csvpath.config.transfer_root"},    # same
    "ResultsManager._path_to_result": {"result.instance_dir"},
    "RunRegistrar.manifest": {"self.archive", "self.manifest_path"},   # the archive-level manifest, not a run's file
    "RunRegistrar.metadata_update": {"self.manifest_path"},
    "CsvLineSpooler.load_if": {"call:_instance_data_file_path", "self.result.data_file_path"},
}


def _ult_roots(fi, e, seen=None, depth=8):
    """ultimate roots of a path expression: first argument of os.path.join / f-string head / left operand, with local names resolved
    through *all* their assignments in the function (union; cycles cut), so that renaming or introducing a local changes nothing"""
    seen = seen if seen is not None else set()
    if depth == 0:
        return {unparse(e)}
    if isinstance(e, ast.Call) and call_name(e) == "join" and e.args:
        return _ult_roots(fi, e.args[0], seen, depth - 1)
    if isinstance(e, ast.JoinedStr):
        for v in e.values:
            if isinstance(v, ast.FormattedValue):
                return _ult_roots(fi, v.value, seen, depth - 1)
        return {"<literal>"}
    if isinstance(e, ast.BinOp):
        return _ult_roots(fi, e.left, seen, depth - 1)
    if isinstance(e, ast.Name):
        if e.id in seen:
            return set()
        seen = seen | {e.id}
        a = fi.node.args
        params = {x.arg for x in a.args + a.kwonlyargs + a.posonlyargs}
        out = {"param:" + e.id} if e.id in params else set()
        vals = []
        for n in walk_no_nested(fi.node):
            if isinstance(n, ast.Assign):
                for t in n.targets:
                    if isinstance(t, ast.Name) and t.id == e.id:
                        vals.append(n.value)
            elif isinstance(n, ast.For) and isinstance(n.target, ast.Name) and n.target.id == e.id:
                vals.append(n.iter)
        for v in vals:
            out |= _ult_roots(fi, v, seen, depth - 1)
        return out or (set() if vals else {"local:" + e.id})
    if isinstance(e, ast.Call):
        return {"call:" + (call_name(e) or unparse(e.func))}
    if isinstance(e, ast.Subscript):
        # a slice of a path (its directory part) is rooted where the path is; an element of a container is named as such
        if isinstance(e.slice, ast.Slice):
            return _ult_roots(fi, e.value, seen, depth - 1)
        return {unparse(e)}
    d = dotted(e)
    if d:
        return {d}
    if isinstance(e, ast.Constant):
        return {"<literal>"}
    return {unparse(e)}


def _ult_roots_ip(idx, fi, e, depth=3):
    """_ult_roots, with a path parameter of a private helper resolved at the helper's call sites (so that moving a write into a
    helper that is handed the path changes nothing)"""
    out = set()
    for r in _ult_roots(fi, e):
        if not (r.startswith("param:") and fi.qual not in WRITE_SITES and fi.name.startswith("_") and not fi.name.startswith("__") and depth > 0):
            out.add(r)
            continue
        pname = r[6:]
        params = [a.arg for a in fi.node.args.posonlyargs + fi.node.args.args]
        if params and params[0] in ("self", "cls"):
            params = params[1:]
        sites = [(f, c) for f, c in K.callers_of(idx, fi) if (K.call_receiver(c) or "").split(".")[0] in ("self", "cls") and f.cls and
                 (f.cls == fi.cls or fi.cls in [k.name for k in idx.mro(f.cls)] or f.cls in [k.name for k in idx.mro(fi.cls or "")])]
        if not sites:
            out.add(r)
            continue
        for f, c in sites:
            arg = None
            for k in c.keywords:
                if k.arg == pname:
                    arg = k.value
            if arg is None and pname in params and params.index(pname) < len(c.args):
                arg = c.args[params.index(pname)]
            if arg is None:
                out.add(r)
            else:
                out |= _ult_roots_ip(idx, f, arg, depth - 1)
    return out


def r4(idx, rep):
    files = [f for f in idx.files if f.startswith("csvpath/managers/results/") or f.startswith("csvpath/managers/run/") or f == "csvpath/util/line_spooler.py"]
    n = 0
    for rel in sorted(files):
        for fi in idx.all_funcs(rel):
            for c in walk_no_nested(fi.node):
                if not isinstance(c, ast.Call):
                    continue
                nm = call_name(c)
                path = None
                if nm == "open" and isinstance(c.func, ast.Name):
                    mode = None
                    if len(c.args) > 1 and isinstance(c.args[1], ast.Constant):
                        mode = c.args[1].value
                    for k in c.keywords:
                        if k.arg == "mode" and isinstance(k.value, ast.Constant):
                            mode = k.value.value
                    if mode is None or not any(ch in mode for ch in "wax+"):
                        continue
                    path = c.args[0]
                elif nm in ("makedirs", "mkdir", "rename", "remove", "rmtree", "copy", "copyfile", "move", "unlink", "replace", "rmdir"):
                    recv = K.call_receiver(c) or ""
                    if nm == "mkdir" and isinstance(c.func, ast.Attribute) and isinstance(c.func.value, ast.Call) and call_name(c.func.value) == "Path":
                        path = c.func.value.args[0]
                    elif recv in ("os", "shutil", "os.path"):
                        path = c.args[-1] if nm in ("rename", "copy", "copyfile", "move", "replace") else c.args[0]
                    elif nm in ("remove", "replace", "copy") and recv not in ("os", "shutil"):
                        continue
                    else:
                        continue
                else:
                    continue
                n += 1
                roots = _ult_roots_ip(idx, fi, path)
                own = K.owner_of(idx, fi, set(WRITE_SITES))
                key = f"{rel}::{own or fi.qual} writes {'|'.join(sorted(roots))}"
                allowed = WRITE_SITES.get(own)
                if allowed is None:
                    rep.fail("R4", key, f"`{unparse(c)[:120]}`: a new file-writing site in the archive code; every write must target the current run's directory", K.where(fi, c))
                else:
                    rep.check(roots <= allowed, "R4", key, f"`{unparse(c)[:120]}` writes a path rooted at {sorted(roots)}; this function may only write under {sorted(allowed)}", K.where(fi, c))
    rep.floor("R4", 14, "file-writing sites")
    # the roots themselves: _save's run_dir is the instance dir of the result being saved
    fs = idx.method("ResultSerializer", "save_result")
    call = [c for c in walk_no_nested(fs.node) if isinstance(c, ast.Call) and call_name(c) == "_save"]
    kw = K.kw_values(idx, fs, call[0]) if len(call) == 1 else {}
    rep.check(kw.get("run_dir") == "result.run_dir" and kw.get("identity") == "result.identity_or_index", "R4",
              f"{fs.file}::ResultSerializer.save_result passes the result's own run dir and identity", f"{kw.get('run_dir')}, {kw.get('identity')}", K.where(fs, fs.node))
    fv = idx.method("ResultSerializer", "_save")
    w = [unparse(v) for t, v, st in K.stores_in(fv.node) if isinstance(t, ast.Name) and t.id == "run_dir"]
    rep.check(w == ["self.get_instance_dir(run_dir=run_dir, identity=identity)"], "R4", f"{fv.file}::ResultSerializer._save writes into the instance dir", f"{w}", K.where(fv, fv.node))
    fl = idx.method("CsvLineSpooler", "_instance_data_file_path")
    w = [unparse(v) for t, v, st in K.stores_in(fl.node) if unparse(t) == "self.path"]
    rep.check(w == ["self.result.data_file_path"], "R4", f"{fl.file}::CsvLineSpooler data file is the result's data_file_path", f"{w}", K.where(fl, fl.node))
    gid = lambda i, c, r, a, k: f"{k.get('run_dir', a[0] if a else None)}/{k.get('identity', a[1] if len(a) > 1 else None)}"
    h = dict(K.JOIN)
    h.update({"self.result_serializer.get_instance_dir": gid, "os.path.exists": lambda i, c, r, a, k: True})
    fr, ok, d = K.returns(idx, "ResultRegistrar", "result_path", "RUN/one", handlers=h, store={"self.result.run_dir": "RUN", "self.result.identity_or_index": "one"})
    rep.check(ok, "R4", f"{fr.file}::ResultRegistrar.result_path is the instance dir", d, K.where(fr, fr.node))
    fd, ok, d = K.returns(idx, "Result", "data_file_path", "RUN/one/data.csv", handlers=K.JOIN, store={"self.instance_dir": "RUN/one"})
    rep.check(ok, "R4", f"{fd.file}::Result.data_file_path", d, K.where(fd, fd.node))
    h2 = {"ResultSerializer": lambda i, c, r, a, k: Obj("rs"), "rs.get_instance_dir": gid}
    fi2, ok, d = K.returns(idx, "Result", "instance_dir", "RUN/one", handlers=h2, store={"self.run_dir": "RUN", "self.identity_or_index": "one"})
    rep.check(ok, "R4", f"{fi2.file}::Result.instance_dir", d, K.where(fi2, fi2.node))


def _roots(e):
    """names/attribute chains at the root of a path expression (first argument of os.path.join, f-string head, ...)"""
    if isinstance(e, ast.Call) and call_name(e) == "join" and e.args:
        return _roots(e.args[0])
    if isinstance(e, ast.JoinedStr):
        for v in e.values:
            if isinstance(v, ast.FormattedValue):
                return _roots(v.value)
        return {"<literal>"}
    if isinstance(e, ast.BinOp):
        return _roots(e.left)
    d = dotted(e)
    if d:
        return {d}
    if isinstance(e, ast.Constant):
        return {"<literal>"}
    return {unparse(e)}


def r5(idx, rep):
    fi = idx.method("ResultsManager", "_find_in_dir_names")
    rep.analysed(fi)
    _, wf, _, _ = formats(idx)

    def strptime(i, c, r, a, k):
        try:
            return datetime.datetime.strptime(a[0], a[1])
        except ValueError:
            raise Raised("ValueError")

    def name(t, n=None):
        s = t.strftime(wf)
        return s if n is None else f"{s}.{n}"

    d = datetime.datetime
    listings = [
        ([d(2026, 1, 2, 12, 59, 59), d(2026, 1, 2, 13, 0, 0)], "2026-01-02_", "12:59 -> 13:00"),
        ([d(2026, 1, 2, 23, 59, 59), d(2026, 1, 3, 0, 0, 1)], "2026-01-", "midnight"),
        ([d(2026, 1, 2, 9, 0, 0), d(2026, 1, 2, 10, 0, 0), d(2026, 1, 2, 21, 0, 0)], "2026-01-02_", "morning/evening"),
        ([d(2026, 1, 2, 9, 0, 0), d(2026, 2, 2, 9, 0, 0)], "2026-", "months"),
    ]
    bad = None
    n = 0
    for times, prefix, label in listings:
        for perm in itertools.permutations(times):
            names = [name(t) for t in perm] + ["unrelated-dir".replace("unrelated-dir", "1999-01-01_00-00-00")]
            for last in (True, False):
                it = Interp(idx, types={"self": "ResultsManager"}, unknown_calls="residual",
                            handlers={"datetime.datetime.strptime": strptime, "datetime.strptime": strptime})
                ps = it.run_all(fi, args={"instance": prefix, "names": list(names), "last": last})
                n += 1
                want = name(max(times)) if last else name(min(times))
                if len(ps) != 1 or ps[0].result != ("return", want):
                    bad = bad or f"{label}: listing {names} prefix {prefix!r} {'last' if last else 'first'} → {ps[0].result}, documented {want!r}"
    # same-second runs: get_run_dir names them <ts>, <ts>.0, <ts>.1, … in that order (R2), so a later suffix is a later run and the
    # bare name is the earliest; every listing order os.listdir may produce (as made, reversed, two fixed shuffles)
    t0 = d(2026, 1, 2, 3, 4, 5)
    before, after = name(d(2026, 1, 2, 3, 4, 4)), name(d(2026, 1, 2, 3, 4, 6))
    for k in (0, 1, 2, 10, 11, 12):
        same = [name(t0)] + [name(t0, j) for j in range(k)]
        for extra, w_first, w_last in (([], same[0], same[-1]), ([before], before, same[-1]), ([after], same[0], after)):
            base = same + extra
            orders = [list(base), list(reversed(base)), base[1::2] + base[0::2], base[2::3] + base[0::3] + base[1::3]]
            for names in orders:
                for last, want in ((True, w_last), (False, w_first)):
                    it = Interp(idx, types={"self": "ResultsManager"}, unknown_calls="residual",
                                handlers={"datetime.datetime.strptime": strptime, "datetime.strptime": strptime})
                    ps = it.run_all(fi, args={"instance": "2026-01-02_03-04", "names": list(names), "last": last})
                    n += 1
                    if len(ps) != 1 or ps[0].result != ("return", want):
                        bad = bad or (f"{k + 1} runs in one second, directory listing {names}: {'last' if last else 'first'} → {ps[0].result}, documented {want!r} "
                                      "(<ts> is the first run of the second, <ts>.N the N+2th)")
    # no run with the prefix → None
    it = Interp(idx, types={"self": "ResultsManager"}, unknown_calls="residual", handlers={"datetime.datetime.strptime": strptime})
    ps = it.run_all(fi, args={"instance": "2030-", "names": [name(t0)], "last": True})
    if len(ps) != 1 or ps[0].result != ("return", None):
        bad = bad or f"no matching run: {ps[0].result}"
    rep.check(bad is None, "R5", f"{fi.file}::ResultsManager._find_in_dir_names table", bad or f"{n} listings", K.where(fi, fi.node))
    rep.stats["table_rows"] = rep.stats.get("table_rows", 0) + n
    # _find_instance: ':last' → last=True, ':first' → last=False; no ':' → the literal instance (bare name)
    ff = idx.method("ResultsManager", "_find_instance")
    rep.analysed(ff, *[idx.method("ResultsManager", m) for m in ("_find_last", "_find_first", "_find") if idx.has_method("ResultsManager", m)])

    def find_names(i, c, r, a, k):
        i.record_call("_find_in_dir_names", (a, k))
        return "PICK"

    bad = None
    for inst, want_last, want_prefix in (("2026-01:last", True, "2026-01"), ("2026-01:first", False, "2026-01"), ("2026-01-02_03-04-05", None, None), (":last", True, "")):
        it = Interp(idx, types={"self": "ResultsManager"}, unknown_calls="residual",
                    inline={"ResultsManager._find_last", "ResultsManager._find_first", "ResultsManager._find"},
                    handlers={"self._find_in_dir_names": find_names, "os.path.exists": lambda i, c, r, a, k: True,
                              "os.listdir": lambda i, c, r, a, k: ["2026-01-02_03-04-05", "2026-01-02_03-04-06"],
                              "os.path.basename": lambda i, c, r, a, k: (a[0].rpartition("/")[2] if isinstance(a[0], str) else Residual("basename"))})
        ps = it.run_all(ff, args={"filename": "A/p", "instance": inst}, store={"self._csvpaths._run_time_str": None, "self.csvpaths._run_time_str": None})
        p = ps[0]
        for q in ps:
            for cc in q.calls("_find_in_dir_names"):
                aa, kk = cc[1]
                vals = list(aa) + [kk.get(x) for x in ("instance", "names", "last") if x in kk]
                if len(vals) >= 2 and vals[1] != ["2026-01-02_03-04-05", "2026-01-02_03-04-06"]:
                    bad = bad or f"_find_instance({inst!r}): the resolver sees {vals[1]} instead of the complete listing of the group's run directories (a run is hidden from :last/:first)"
        if want_last is None:
            if p.result != ("return", inst):
                bad = bad or f"_find_instance({inst!r}) = {p.result}: a literal run name must be returned as a bare name (the caller joins it under the group directory)"
        else:
            calls = p.calls("_find_in_dir_names")
            got = None
            if calls:
                a, k = calls[0][1]
                vals = list(a) + [k.get(x) for x in ("instance", "names", "last") if x in k]
                got = (vals[0], vals[-1])
            if p.result != ("return", "PICK") or got != (want_prefix, want_last):
                bad = bad or f"_find_instance({inst!r}) → {p.result}, resolver called with {got}; documented prefix {want_prefix!r}, last={want_last}"
    rep.check(bad is None, "R5", f"{ff.file}::ResultsManager._find_instance table", bad or "", K.where(ff, ff.node))
    # a run that refers to its own group (a replay: `$p.results.<prefix>:last.<id>` as the file of a run of p) means the most recent *earlier*
    # run: its own run directory exists already (start_run made it) but holds nothing yet
    bad = None
    for running, want_seen in (("A/p/2026-01-02_03-04-06", ["2026-01-02_03-04-05"]), ("A/q/2026-01-02_03-04-06", ["2026-01-02_03-04-05", "2026-01-02_03-04-06"])):
        seen = []

        def find_names2(i, c, r, a, k):
            vals = list(a) + [k.get(x) for x in ("instance", "names", "last") if x in k]
            seen.append(list(vals[1]))
            return "PICK"

        it = Interp(idx, types={"self": "ResultsManager"}, unknown_calls="residual",
                    inline={"ResultsManager._find_last", "ResultsManager._find_first", "ResultsManager._find"},
                    handlers={"self._find_in_dir_names": find_names2, "os.path.exists": lambda i, c, r, a, k: True,
                              "os.listdir": lambda i, c, r, a, k: ["2026-01-02_03-04-05", "2026-01-02_03-04-06"],
                              "os.path.basename": lambda i, c, r, a, k: a[0].rpartition("/")[2], "os.path.dirname": lambda i, c, r, a, k: a[0].rpartition("/")[0],
                              "os.path.normpath": lambda i, c, r, a, k: a[0].rstrip("/"), "os.path.join": lambda i, c, r, a, k: "/".join(a),
                              "os.path.abspath": lambda i, c, r, a, k: a[0].rstrip("/"), "os.path.samefile": lambda i, c, r, a, k: a[0].rstrip("/") == a[1].rstrip("/")})
        ps = it.run_all(ff, args={"filename": "A/p", "instance": "2026-01-02_:last"}, store={"self._csvpaths._run_time_str": running, "self.csvpaths._run_time_str": running})
        if len(ps) != 1 or ps[0].result != ("return", "PICK") or seen != [want_seen]:
            bad = bad or (f"a run in progress in {running!r} resolves `2026-01-02_:last` in A/p against the listing {seen} ({[q.result for q in ps][:2]}); documented {want_seen}: "
                          "the run's own, still empty directory is not a run it can refer to (a replay of the group's last run would read nothing)")
    rep.check(bad is None, "R5", f"{ff.file}::ResultsManager._find_instance leaves out the run in progress", bad or "2 rows", K.where(ff, ff.node))
