"""Model of the match-part parse pipeline (C17): grammar string → Lark (as configured by the code) → LarkTransformer callbacks
interpreted (sa.absint) bottom-up with model constructors for the productions → a plain structure that is compared with the AST the
text was generated from."""
import ast

import lark

from sa.absint import Interp, Obj, Residual, Raised
from sa.index import AnalysisError, unparse

EU = "ExpressionUtility"


def grammar(idx):
    from . import common as K
    return K.lark_ctor(idx, "LarkParser")


class MatchModel:
    def __init__(self, idx):
        self.idx = idx
        self.gsrc, self.ctor = grammar(idx)
        self.parser = lark.Lark(self.gsrc, **self.ctor)
        self.tcls = idx.cls("LarkTransformer")
        self.callbacks = set(self.tcls.methods)
        self.fparse = idx.method("LarkParser", "parse")
        self._n = 0

    # ---------------------------------------------------------------- the text handed to the grammar
    def parse_texts(self, texts):
        """interpret LarkParser.parse on a sequence of texts on one instance; returns for each the text whose tree is returned"""
        parsed = {}

        def h_parse(i, c, r, a, k):
            t = Obj(f"TREE#{len(parsed)}")
            parsed[t.name] = a[0]
            return t

        it = Interp(self.idx, types={"self": "LarkParser"}, unknown_calls="residual", handlers={"self.parser.parse": h_parse})

        def program(it):
            out = []
            for t in texts:
                tree = it.call_function(self.fparse, {"matchpart": t}, "self")
                out.append(parsed.get(getattr(tree, "name", None)))
            return out

        ps = it.run_program(program, {})
        if len(ps) != 1 or ps[0].result[0] != "return":
            raise AnalysisError(f"LarkParser.parse is not evaluable: {[p.result for p in ps]}")
        return ps[0].result[1]

    def matcher_texts(self, texts):
        """interpret Matcher.__init__ (the place a match part is parsed in a run) for a sequence of match parts in one process (class-level
        state is shared between the instances); returns for each the text whose tree was handed to the transformer"""
        parsed = {}
        fi = self.idx.method("Matcher", "__init__")

        def h_parse(i, c, r, a, k):
            t = Obj(f"TREE#{len(parsed)}")
            parsed[t.name] = a[0]
            return t

        def h_transform(i, c, r, a, k):
            i.record_call("transform", parsed.get(getattr(a[0], "name", None), repr(a[0])))
            return []

        it = Interp(self.idx, types={"LP": "LarkParser"}, unknown_calls="residual", inline={"LarkParser.parse"},
                    handlers={"LarkParser": lambda i, c, r, a, k: Obj("LP"), "LP.parser.parse": h_parse, "LarkTransformer": lambda i, c, r, a, k: Obj("LT"),
                              "LT.transform": h_transform, ".check_valid": lambda i, c, r, a, k: None})

        def program(it):
            for n, t in enumerate(texts):
                it.types[f"m{n}"] = "Matcher"
                it.call_function(fi, {"csvpath": None, "data": t, "line": None, "headers": ["a"], "myid": "id"}, f"m{n}")
            return [v for kk, v in it.path.calls("transform")]

        ps = it.run_program(program, {})
        if len(ps) != 1 or ps[0].result[0] != "return":
            raise AnalysisError(f"Matcher.__init__ is not evaluable on a match part: {[p.result for p in ps][:3]}")
        return fi, ps[0].result[1]

    # ---------------------------------------------------------------- transformer
    def build(self, text):
        """('ok', structure) | ('parse-error', name) | ('ambiguous', n) | ('raise', typ)"""
        try:
            tree = self.parser.parse(text)
        except Exception as e:  # pylint: disable=W0718
            return ("parse-error", type(e).__name__)
        if any(t.data == "_ambig" for t in tree.iter_subtrees()):
            return ("ambiguous", sum(1 for t in tree.iter_subtrees() if t.data == "_ambig"))
        objs = {}

        def new(kind, i, **fields):
            self._n += 1
            o = Obj(f"{kind}{self._n}")
            objs[o.name] = dict(kind=kind, **fields)
            i.store[f"{o.name}.children"] = []
            return o

        def qualified(i, raw):
            fi = self.idx.method(EU, "get_name_and_qualifiers")
            try:
                n, q = i.call_function(fi, {"name": raw}, EU)
            except Raised as r:
                return ("<raise " + r.typ + ">", [])
            return n, list(q or [])

        def h_header(i, c, r, a, k):
            raw = k.get("name")
            if isinstance(raw, str):
                raw = raw.strip()
            n, q = qualified(i, raw)
            return new("Header", i, name=n, quals=q)

        def h_variable(i, c, r, a, k):
            n, q = qualified(i, k.get("name"))
            return new("Variable", i, name=n, quals=q)

        def h_reference(i, c, r, a, k):
            return new("Reference", i, name=k.get("name"))

        def h_term(i, c, r, a, k):
            # the value a Term ends up with is what its own constructor hands to the base class
            got = {}
            o = new("Term", i, value=None)
            sub = Interp(self.idx, types={o.name: "Term"}, unknown_calls="residual",
                         handlers={"super": lambda i2, c2, r2, a2, k2: Obj("__super__"), "__super__.__init__": lambda i2, c2, r2, a2, k2: got.update(k2)})
            a2 = dict(k)
            a2["__pos__"] = list(a)
            ps = sub.run_all(self.idx.method("Term", "__init__"), args=a2, selfkey=o.name)
            if len(ps) != 1 or ps[0].result[0] != "return" or "value" not in got:
                raise AnalysisError(f"Term.__init__ is not evaluable on {k}: {[p.result for p in ps][:2]}")
            objs[o.name]["value"] = got["value"]
            return o

        def h_expression(i, c, r, a, k):
            return new("Expression", i)

        def h_equality(i, c, r, a, k):
            o = new("Equality", i)
            i.store[f"{o.name}.op"] = "="
            return o

        def h_function(i, c, r, a, k):
            # name and qualifiers as the factory and the component's own set_qualifiers() make them (the real code, interpreted)
            raw = k.get("name")
            fq = self.idx.method("FunctionFactory", "get_name_and_qualifier")
            fs = self.idx.method("Qualified", "set_qualifiers")
            sub = Interp(self.idx, types={"FunctionFactory": "FunctionFactory", "cls": "FunctionFactory", "F": "Function"}, unknown_calls="residual",
                         inline={f"{c_.name}.qualifiers" for c_ in self.idx.mro("Function")})

            def prog(j):
                name, qual = j.call_function(fq, {"name": raw}, "FunctionFactory")
                j.store["F._qualifiers"] = []
                if qual:
                    j.call_function(fs, {"__pos__": [qual]}, "F")
                return name, list(j.store.get("F._qualifiers") or [])

            ps = sub.run_program(prog, {})
            if len(ps) != 1 or ps[0].result[0] != "return":
                raise AnalysisError(f"function name/qualifier split is not evaluable on {raw!r}: {[p.result for p in ps][:2]}")
            name, quals = ps[0].result[1]
            o = new("Function", i, name=name, quals=quals, child=k.get("child"))
            return o

        def h_add_child(i, c, r, a, k):
            i.store[f"{r.name}.children"].append(a[0])

        def iso(i, args, call):
            o, t = args[0], args[1]
            tn = t.text if isinstance(t, Residual) else str(t)
            if isinstance(o, Obj) and o.name in objs:
                if tn == "Matchable":
                    return True
                return objs[o.name]["kind"] == tn
            if tn == "Token":
                return isinstance(o, Obj) and o.name.startswith("tok")
            if isinstance(t, (list, tuple)):
                return isinstance(o, tuple(x for x in (int, float) if any(getattr(y, "text", None) == x.__name__ for y in t)))
            return False

        it = Interp(self.idx, types={"self": "LarkTransformer", EU: EU}, unknown_calls="residual", isinstance_oracle=iso,
                    inline={f"{EU}.get_name_and_qualifiers", f"{EU}._parse_quoted", f"{EU}._next_qual"},
                    handlers={"Header": h_header, "Variable": h_variable, "Reference": h_reference, "Term": h_term, "Expression": h_expression, "Equality": h_equality,
                              "FunctionFactory.get_function": h_function, ".add_child": h_add_child})

        def program(it):
            return self._transform(it, tree)

        ps = it.run_program(program, {})
        if len(ps) != 1:
            return ("raise", f"transformer not deterministic ({len(ps)} paths; {ps[0].summary()['choices'][:2]})")
        kind, v = ps[0].result
        if kind != "return":
            return ("raise", v)
        st = ps[0].final_store

        def struct(o):
            if o is None:
                return None
            if not isinstance(o, Obj) or o.name not in objs:
                return ("?", repr(o))
            d = objs[o.name]
            k = d["kind"]
            if k in ("Header", "Variable"):
                return (k, d["name"], tuple(d["quals"]))
            if k == "Reference":
                return (k, d["name"])
            if k == "Term":
                return (k, d["value"], type(d["value"]).__name__)
            if k == "Function":
                return (k, d["name"], tuple(d["quals"]), struct(d["child"]))
            if k == "Expression":
                return (k, tuple(struct(c) for c in st.get(f"{o.name}.children", [])))
            if k == "Equality":
                op = st.get(f"{o.name}.op")
                if op == ",":
                    return (k, ",", tuple(struct(c) for c in st.get(f"{o.name}.children", [])))
                return (k, op if isinstance(op, str) else getattr(op, "name", repr(op)), struct(st.get(f"{o.name}.left")), struct(st.get(f"{o.name}.right")))
            return ("?", k)

        if not isinstance(v, (list, tuple)):
            return ("raise", f"match() returns {v!r}")
        return ("ok", tuple(struct(x) for x in v))

    def _transform(self, it, node):
        if isinstance(node, lark.Tree):
            kids = [self._transform(it, c) for c in node.children]
            name = node.data if isinstance(node.data, str) else node.data.value
            if name in self.callbacks:
                return it.call_function(self.tcls.methods[name], {"__pos__": kids}, "self")
            return kids
        tname = node.type
        if tname in self.callbacks:
            self._n += 1
            tok = Obj(f"tok{self._n}")
            it.store[f"{tok.name}.value"] = str(node)
            return it.call_function(self.tcls.methods[tname], {"__pos__": [tok]}, "self")
        return str(node)
