"""C19 — results depend only on the csvpath, the file and the configuration.

  R1 global state inventory   class-/module-level mutable containers, mutable default arguments, calls that mutate
                              interpreter-wide state == frozen list (keyed by owner and role) with one reason each
  R2 cache codec              header cache writer/reader round trip on header lists with quotes, delimiters, blanks,
                              newlines; line-monitor cache dump/load field agreement; cache key injective on paths
  R3 copies out of the cache  FileCacher hands out copies (shared with C08.R2)
  R4 two header paths agree   CsvPath.get_total_lines_and_headers: cacher vs LineCounter obtain headers the same way
  R5 no unordered iteration   no iteration over sets / unsorted os.listdir / builtin hash() on the result path
"""
import ast
import csv
import hashlib
import io

from sa.index import AnalysisError, unparse, walk_no_nested, call_name, dotted
from sa.absint import Interp, Obj, Residual, Raised
from . import common as K
from . import c08

ALLOWED_CLASS_STATE = {
    # (class, role) -> reason
    ("FunctionFactory", "registry"): "external functions registry: a function of the configured imports file, loaded once",
    ("DataFileReader", "registry"): "caller-registered in-memory data frames, never written by a run",
    ("LogUtility", "registry"): "logger cache: logging only, not part of results",
}
CONSTANT_TABLES = {("Qualified", "QUALIFIERS"), ("ScanningLexer", "tokens"), ("FilesMode", "ALL_TYPES"), ("ModeController", "MODES")}
MUTATORS = {"append", "extend", "insert", "pop", "remove", "clear", "update", "setdefault", "add", "discard", "sort", "reverse", "popitem"}
GLOBAL_CALLS = {"filterwarnings": "warnings", "simplefilter": "warnings", "chdir": "os", "putenv": "os", "seed": "random", "setlocale": "locale", "basicConfig": "logging", "setrecursionlimit": "sys"}


def run(idx, rep, tier):
    rep.explanation = (
        "Inventory of process-wide mutable state in the package (class/module-level containers, mutable defaults, interpreter-wide "
        "setters) against a frozen allow-list with reasons; the header cache writer and reader are interpreted (AST; stdlib csv/io/hashlib "
        "are executed as the trusted base) on header lists with quotes, delimiters, blanks and newlines and must round-trip; LineMonitor "
        "dump/load agree field by field; the cache key distinguishes paths with the same file name; the cacher returns copies; both header "
        "paths go through LineCounter; no set/unsorted-listdir/hash() iteration reaches results. Equality across histories is not decided.")
    rep.rule("R1", "no undeclared process-wide mutable state")
    rep.rule("R2", "cache writer and reader are inverse; cache key is the full path")
    rep.rule("R3", "cached objects are copied out")
    rep.rule("R4", "cold and warm header paths agree")
    rep.rule("R5", "no unordered iteration in result paths")
    r1(idx, rep)
    r2(idx, rep)
    c08.copies(idx, rep, "R3")
    r4(idx, rep)
    r5(idx, rep)
    K.mutable_defaults(idx, rep, "R1")
    rep.rule("R6", "a named file resolves by what was registered last, whatever was registered before (C11 store sequences)")
    from . import c11
    n, msg = c11.run_sequences(idx, 3)
    rep.check(msg is None, "R6", "csvpath/managers/files/file_manager.py::named-file resolution is history independent", msg or f"{n} operation sequences", "csvpath/managers/files/file_manager.py")
    # repeating a run gives identical results: run-scoped state (run time, run directory, signals) is reset before a run is named
    from . import c10
    c10.run_state(idx, K.as_rule(rep, "R1"), "R1")
    rep.stats["exhaustive"] = True


def _is_container(v):
    return isinstance(v, (ast.Dict, ast.List, ast.Set, ast.ListComp, ast.DictComp, ast.SetComp)) or (
        isinstance(v, ast.Call) and unparse(v.func) in ("dict", "list", "set", "defaultdict", "collections.defaultdict", "OrderedDict", "deque"))


def _mutated(idx, cls, attr):
    """is <cls>.<attr> / cls.<attr> / self.<attr> mutated anywhere?"""
    sites = []
    for fi in idx.all_funcs():
        for n in walk_no_nested(fi.node):
            tgt = None
            if isinstance(n, ast.Call) and isinstance(n.func, ast.Attribute) and n.func.attr in MUTATORS:
                tgt = n.func.value
            elif isinstance(n, (ast.Assign, ast.AugAssign, ast.Delete)):
                ts = n.targets if isinstance(n, (ast.Assign, ast.Delete)) else [n.target]
                for t in ts:
                    if isinstance(t, ast.Subscript):
                        tgt = t.value
                    elif isinstance(t, ast.Attribute) and t.attr == attr and unparse(t.value) in (cls, "cls"):
                        tgt = t
            if tgt is None:
                continue
            d = dotted(tgt) or ""
            if d.endswith("." + attr) and (d.split(".")[0] in (cls, "cls") or (d.split(".")[0] == "self" and fi.cls and (fi.cls == cls or cls in [c.name for c in idx.mro(fi.cls)]))):
                sites.append((fi, n))
    return sites


def _escapes(idx, cls, attr):
    """does <cls>.<attr> leave the class as an object (bound to a name, passed to a call, returned, stored)?  Then an alias could
    mutate it and the 'never mutated' argument does not hold.  Reads through subscript / .get / in / len / iteration do not escape."""
    sites = []
    for fi in idx.all_funcs():
        parents = {}
        for p_ in ast.walk(fi.node):
            for ch in ast.iter_child_nodes(p_):
                parents[id(ch)] = p_
        for n in walk_no_nested(fi.node):
            if not (isinstance(n, ast.Attribute) and n.attr == attr and isinstance(n.ctx, ast.Load)):
                continue
            d = dotted(n) or ""
            base = d.split(".")[0]
            if not (base in (cls, "cls") or (base == "self" and fi.cls and (fi.cls == cls or cls in [c.name for c in idx.mro(fi.cls)]))):
                continue
            par = parents.get(id(n))
            harmless = (
                (isinstance(par, ast.Subscript) and par.value is n) or
                (isinstance(par, ast.Attribute) and par.value is n and par.attr in ("get", "keys", "values", "items", "index", "count", "copy", "format")) or
                (isinstance(par, ast.Compare)) or
                (isinstance(par, (ast.For, ast.comprehension)) and par.iter is n) or
                (isinstance(par, ast.Call) and call_name(par) in ("len", "sorted", "list", "tuple", "set", "dict", "enumerate", "any", "all", "sum", "max", "min", "join", "frozenset") and n in par.args) or
                (isinstance(par, ast.Starred)) or (isinstance(par, ast.BinOp)) or (isinstance(par, ast.FormattedValue))
            )
            if not harmless and isinstance(par, ast.Call) and n in par.args and isinstance(par.func, ast.Attribute) and isinstance(par.func.value, ast.Name) \
                    and par.func.value.id in ("self", "cls", cls) and par.func.attr.startswith("_") and fi.cls and idx.has_method(fi.cls, par.func.attr):
                # handed to a private method of the same class: harmless when that method only reads its parameter
                harmless = _param_read_only(idx.method(fi.cls, par.func.attr), par.args.index(n))
            if not harmless:
                sites.append((fi, n))
    return sites


def _param_read_only(m, pos):
    """does method m use its pos-th positional parameter (after self) only through subscripts, .get()/keys()/…, membership tests and iteration"""
    params = [a.arg for a in m.node.args.posonlyargs + m.node.args.args]
    if params and params[0] in ("self", "cls"):
        params = params[1:]
    if pos >= len(params):
        return False
    name = params[pos]
    parents = {}
    for p_ in ast.walk(m.node):
        for ch in ast.iter_child_nodes(p_):
            parents[id(ch)] = p_
    for n in ast.walk(m.node):
        if not (isinstance(n, ast.Name) and n.id == name):
            continue
        if not isinstance(n.ctx, ast.Load):
            return False
        par = parents.get(id(n))
        gpar = parents.get(id(par)) if par is not None else None
        ok = (
            (isinstance(par, ast.Subscript) and par.value is n and isinstance(par.ctx, ast.Load)) or
            (isinstance(par, ast.Attribute) and par.value is n and par.attr in ("get", "keys", "values", "items", "index", "count") and isinstance(gpar, ast.Call) and gpar.func is par) or
            isinstance(par, ast.Compare) or
            (isinstance(par, (ast.For, ast.comprehension)) and par.iter is n) or
            (isinstance(par, ast.Call) and call_name(par) in ("len", "sorted", "list", "tuple", "set", "dict", "enumerate", "any", "all", "frozenset") and n in par.args)
        )
        if not ok:
            return False
    return True


def _module_table_sites(idx, rel, name):
    """uses of the module-level container `name` of file rel that mutate it, rebind it or let it leave as an object (the module-level
    analogue of _mutated/_escapes); an import of the name by another file counts as leaving"""
    sites = []
    for rel2, (_src, tree2) in idx.files.items():
        if rel2 == rel:
            continue
        for st in ast.walk(tree2):
            if isinstance(st, ast.ImportFrom) and any(a.name == name for a in st.names) and (st.module or "").split(".")[-1] == rel.rsplit("/", 1)[-1][:-3]:
                sites.append((rel2, st))
    tree = idx.files[rel][1]
    parents = {}
    for p_ in ast.walk(tree):
        for ch in ast.iter_child_nodes(p_):
            parents[id(ch)] = p_
    ndefs = 0
    for n in ast.walk(tree):
        if not (isinstance(n, ast.Name) and n.id == name):
            continue
        par = parents.get(id(n))
        if isinstance(n.ctx, ast.Store):
            ndefs += 1
            if ndefs > 1 or not (isinstance(par, ast.Assign) and par in tree.body):
                sites.append((rel, n))
            continue
        if isinstance(n.ctx, ast.Del):
            sites.append((rel, n))
            continue
        gpar = parents.get(id(par)) if par is not None else None
        harmless = (
            (isinstance(par, ast.Subscript) and par.value is n and isinstance(par.ctx, ast.Load)) or
            (isinstance(par, ast.Attribute) and par.value is n and par.attr in ("get", "keys", "values", "items", "index", "count", "copy", "format")
             and isinstance(gpar, ast.Call) and gpar.func is par) or
            (isinstance(par, ast.Compare)) or
            (isinstance(par, (ast.For, ast.comprehension)) and par.iter is n) or
            (isinstance(par, ast.Call) and call_name(par) in ("len", "sorted", "list", "tuple", "set", "dict", "enumerate", "any", "all", "sum", "max", "min", "join", "frozenset") and n in par.args) or
            (isinstance(par, ast.Starred)) or (isinstance(par, ast.BinOp)) or (isinstance(par, ast.FormattedValue))
        )
        if not harmless:
            sites.append((rel, n))
    return sites


IO_NAMES = {"open", "listdir", "stat", "read", "write", "reader", "writer", "load", "loads", "dump", "dumps", "getenv", "environ", "time", "now", "today", "random",
            "uuid4", "urandom", "glob", "walk", "exists", "isfile", "isdir", "getmtime", "getsize", "input", "connect", "get", "post", "request"}


def _pure_memo(idx, ci, attr):
    """Is the class-level dict `attr` only a memo of a deterministic construction?  Accepted shape, all of it required:
      * the dict is touched in exactly one private class/static method of the class, and nowhere else in the package;
      * there only through `.get(k)`, `k in d`, `d[k]` and one store `d[k] = v`, with k a parameter (or a tuple of parameters) of that method;
      * v is a call of a name imported from outside the package (stdlib / third party; not an I/O, clock or random name), whose arguments mention
        nothing but the method's parameters and constants (no self/cls state, no package object).
    Then every entry is a function of its key alone: what an earlier job left is what this job would have built.  Returns the reason or None."""
    cname = ci.name
    users = []
    for fi in idx.all_funcs():
        for n in ast.walk(fi.node):
            if isinstance(n, ast.Attribute) and n.attr == attr and isinstance(n.value, ast.Name) and (
                    n.value.id in (cname,) or (n.value.id in ("cls", "self") and fi.cls and (fi.cls == cname or cname in [c.name for c in idx.mro(fi.cls)]))):
                users.append(fi)
    users = {id(f.node): f for f in users}
    if len(users) != 1:
        return None
    m = next(iter(users.values()))
    if m.cls != cname or not m.name.startswith("_") or not any(isinstance(d, ast.Name) and d.id in ("classmethod", "staticmethod") for d in m.node.decorator_list):
        return None
    params = [a.arg for a in m.node.args.posonlyargs + m.node.args.args + m.node.args.kwonlyargs]
    params = [p_ for p_ in params if p_ not in ("cls", "self")]
    parents = {}
    for p_ in ast.walk(m.node):
        for ch in ast.iter_child_nodes(p_):
            parents[id(ch)] = p_

    def is_key(e):
        if isinstance(e, ast.Name):
            return e.id in params
        return isinstance(e, ast.Tuple) and e.elts and all(isinstance(x, ast.Name) and x.id in params for x in e.elts)

    stored = []
    for n in ast.walk(m.node):
        if not (isinstance(n, ast.Attribute) and n.attr == attr):
            continue
        par = parents.get(id(n))
        gpar = parents.get(id(par))
        if isinstance(par, ast.Subscript) and par.value is n and is_key(par.slice):
            if isinstance(par.ctx, ast.Store):
                if not (isinstance(gpar, ast.Assign) and len(gpar.targets) == 1):
                    return None
                stored.append(gpar.value)
            elif not isinstance(par.ctx, ast.Load):
                return None
        elif isinstance(par, ast.Attribute) and par.value is n and par.attr == "get" and isinstance(gpar, ast.Call) and gpar.args and is_key(gpar.args[0]):
            pass
        elif isinstance(par, ast.Compare) and n in par.comparators and is_key(par.left):
            pass
        else:
            return None
    if len(stored) != 1:
        return None
    v = stored[0]
    if isinstance(v, ast.Name):
        # the local that is stored: what it holds besides the look-up in the memo itself
        vals = [a.value for a in ast.walk(m.node) if isinstance(a, ast.Assign) and len(a.targets) == 1 and isinstance(a.targets[0], ast.Name) and a.targets[0].id == v.id]
        vals = [x for x in vals if not (isinstance(x, ast.Call) and isinstance(x.func, ast.Attribute) and x.func.attr == "get" and isinstance(x.func.value, ast.Attribute) and x.func.value.attr == attr)
                and not (isinstance(x, ast.Subscript) and isinstance(x.value, ast.Attribute) and x.value.attr == attr)]
        if len(vals) != 1:
            return None
        v = vals[0]
    if not (isinstance(v, ast.Call) and isinstance(v.func, ast.Name)):
        return None
    callee = v.func.id
    imported_outside = False
    for st in idx.files[ci.file][1].body:
        if isinstance(st, ast.ImportFrom) and st.level == 0 and not (st.module or "").startswith(idx.pkg) and any((a.asname or a.name) == callee for a in st.names):
            imported_outside = True
    if not imported_outside or callee.lower() in IO_NAMES:
        return None
    for a in list(v.args) + [k.value for k in v.keywords]:
        for x in ast.walk(a):
            if isinstance(x, ast.Name) and x.id not in params:
                return None
            if isinstance(x, (ast.Attribute, ast.Call, ast.Subscript)):
                return None
    return (f"{cname}.{attr} is filled only by {m.qual} with `{unparse(v)[:70]}` under the key `{unparse(stored[0])[:30]}`-independent inputs {params}: "
            "each entry is a function of its key alone")


def r1(idx, rep):
    n = 0
    for cname, cis in sorted(idx.classes.items()):
        for ci in cis:
            if ci.file.startswith("csvpath/cli/"):
                continue
            for attr, v in ci.class_assigns.items():
                if not _is_container(v):
                    continue
                n += 1
                key = f"{ci.file}::{cname} class-level container"
                # a table that nothing mutates and that never leaves the class as an object is a constant, whatever its container type
                if (cname, attr) in CONSTANT_TABLES or (isinstance(v, (ast.List, ast.Set, ast.Dict)) and not _mutated(idx, cname, attr) and not _escapes(idx, cname, attr)):
                    sites = _mutated(idx, cname, attr)
                    rep.check(not sites, "R1", key + f" {attr} is constant", f"the table {cname}.{attr} is mutated at {[K.where(f, x) for f, x in sites][:2]}", ci.file)
                    continue
                if (cname, "registry") in ALLOWED_CLASS_STATE and len([a for a, vv in ci.class_assigns.items() if _is_container(vv) and (cname, a) not in CONSTANT_TABLES]) == 1:
                    rep.ok("R1", key + " (listed registry)", ALLOWED_CLASS_STATE[(cname, "registry")], ci.file)
                    continue
                memo = _pure_memo(idx, ci, attr)
                if memo:
                    rep.ok("R1", key + f" {attr} is a memo of a pure construction", memo, ci.file)
                    continue
                rep.fail("R1", key + f" {attr}", f"`{attr} = {unparse(v)[:60]}` is state shared by every instance in the process and outlives a run: a later job can see what an earlier one left "
                                                 f"(not in the allow-list: {sorted(c for c, _ in ALLOWED_CLASS_STATE)})", ci.file)
    # module-level containers
    for rel, (src, tree) in idx.files.items():
        if rel.endswith("parsetab.py") or rel.startswith("csvpath/cli/"):
            continue
        for st in tree.body:
            if isinstance(st, ast.Assign) and _is_container(st.value):
                names = [t.id for t in st.targets if isinstance(t, ast.Name)]
                if names == ["__all__"]:
                    continue
                n += 1
                # a literal table that nothing in the package mutates, rebinds, or gets hold of as an object is a constant
                if len(names) == 1 and isinstance(st.value, (ast.Dict, ast.List, ast.Set)) and not _module_table_sites(idx, rel, names[0]):
                    rep.ok("R1", f"{rel}::module-level container {names[0]} is constant", "read through subscripts, membership tests and iteration only", rel)
                    continue
                rep.fail("R1", f"{rel}::module-level container {names}", f"`{unparse(st)[:80]}` is process-wide mutable state", rel)
            if isinstance(st, ast.Global):
                rep.fail("R1", f"{rel}::global statement", unparse(st), rel)
    for fi in idx.all_funcs():
        if fi.file.startswith("csvpath/cli/"):
            continue
        for g in walk_no_nested(fi.node):
            if isinstance(g, ast.Global):
                rep.fail("R1", f"{fi.file}::{fi.qual} global statement", unparse(g), K.where(fi, g))
        a = fi.node.args
        params = [p.arg for p in a.args][len(a.args) - len(a.defaults):] if a.defaults else []
        for pn, d in list(zip(params, a.defaults)) + [(p.arg, d) for p, d in zip(a.kwonlyargs, a.kw_defaults) if d is not None]:
            if _is_container(d):
                mut = [x for x in walk_no_nested(fi.node) if isinstance(x, ast.Call) and isinstance(x.func, ast.Attribute) and x.func.attr in MUTATORS and unparse(x.func.value) == pn]
                mut += [x for x in walk_no_nested(fi.node) if isinstance(x, (ast.Assign, ast.AugAssign)) and any(isinstance(t, ast.Subscript) and unparse(t.value) == pn for t in (x.targets if isinstance(x, ast.Assign) else [x.target]))]
                rep.check(not mut, "R1", f"{fi.file}::{fi.qual} mutable default {pn}", f"the default `{pn}={unparse(d)}` is mutated in the body: state leaks between calls", K.where(fi, fi.node))
        for c in walk_no_nested(fi.node):
            if isinstance(c, ast.Call) and call_name(c) in GLOBAL_CALLS and (K.call_receiver(c) or "").split(".")[0] == GLOBAL_CALLS[call_name(c)]:
                n += 1
                listed = fi.qual == "Expression.check_valid" and call_name(c) == "filterwarnings" and unparse(c) == "warnings.filterwarnings('error')"
                rep.check(listed, "R1", f"{fi.file}::{fi.qual} interpreter-wide {call_name(c)}",
                          f"`{unparse(c)}` changes interpreter-wide state. Listed exception: Expression.check_valid's idempotent warnings.filterwarnings('error') (installed by the first matcher, never removed)", K.where(fi, c))
            if isinstance(c, ast.Subscript) and isinstance(c.ctx, ast.Store) and unparse(c.value) in ("os.environ", "sys.modules"):
                rep.fail("R1", f"{fi.file}::{fi.qual} writes {unparse(c.value)}", unparse(c), K.where(fi, c))
    rep.floor("R1", 6, "global state candidates")
    rep.stats["inventory"] = n


class ModelFS:
    def __init__(self):
        self.files = {}

    def open(self, interp, call, recv, args, kwargs):
        path = args[0]
        mode = args[1] if len(args) > 1 else kwargs.get("mode", "r")
        if "w" in mode:
            buf = _WBuf(self, path)
            return buf
        if path not in self.files:
            raise Raised("FileNotFoundError")
        return io.StringIO(self.files[path], newline=None if kwargs.get("newline") is None else kwargs.get("newline"))


class _WBuf(io.StringIO):
    def __init__(self, fs, path):
        super().__init__()
        self.fs = fs
        self.path = path

    def write(self, s):
        r = super().write(s)
        self.fs.files[self.path] = self.getvalue()
        return r

    def __deepcopy__(self, memo):
        return self


PATH = "/data/f.csv"


def stdlib_handlers(statable=False):
    """stdlib the cacher and the cache touch, executed as the trusted base (csv/io/hashlib) or modelled (paths); without `statable` the data file
    cannot be stat'ed (the cache then keys on the path alone)"""
    def _safe(fn):
        def h(i, c, r, a, k):
            try:
                return fn(*a, **k)
            except Exception as ex:  # pylint: disable=W0718
                raise Raised(type(ex).__name__)
        return h

    def _nofile(i, c, r, a, k):
        raise Raised("FileNotFoundError")

    h = {"io.StringIO": lambda i, c, r, a, k: io.StringIO(*a), "csv.writer": _safe(csv.writer), "csv.reader": _safe(csv.reader),
         "hashlib.sha256": lambda i, c, r, a, k: hashlib.sha256(*a), "os.path.join": lambda i, c, r, a, k: "/".join(a),
         "os.path.basename": lambda i, c, r, a, k: (a[0].rpartition("/")[2] if isinstance(a[0], str) else Residual(f"os.path.basename({a[0]})"))}
    if not statable:
        for nm in ("os.stat", "os.path.getmtime", "os.path.getsize"):
            h[nm] = _nofile
    return h


def cacher_history(idx, stdlib, headers, between=None, recount_headers=None, extra=None, keep_memory=False, monitor_first=False):
    """One file through two lives of a FileCacher on one model disk, through the public accessors only: a cold request (nothing in
    memory, nothing on disk), then `between(fs, state)`, then the same requests with nothing in memory (a new process) — what is left
    is the cache directory.  Returns (fs, paths); a path's result is (headers1, monitor1, headers2, monitor2); the calls recorded are
    ("count", phase) for every LineCounter run and ("load", json) for every LineMonitor.load."""
    fs = ModelFS()
    state = {"phase": 1}
    h = dict(stdlib)
    h["open"] = fs.open
    h["LineMonitor"] = lambda i, c, r, a, k: Obj("LM_LOADED")
    h["LM_LOADED.load"] = lambda i, c, r, a, k: i.record_call("load", a[0])
    h["LM_LOADED.copy"] = lambda i, c, r, a, k: Obj("COPY_OF_LOADED")
    h["LineCounter"] = lambda i, c, r, a, k: Obj("lc")

    def count(i, c, r, a, k):
        i.record_call("count", state["phase"])
        return (Obj("COUNTED"), list(headers if state["phase"] == 1 or recount_headers is None else recount_headers))

    h["lc.get_lines_and_headers"] = count
    h["COUNTED.dump"] = lambda i, c, r, a, k: '{"n": 1}'
    h["COUNTED.copy"] = lambda i, c, r, a, k: Obj("COPY_OF_COUNTED")
    h["self.cache._cachedir"] = lambda i, c, r, a, k: "CACHE"

    def cp(i, c, r, a, k):
        # copy.copy / copy.deepcopy of a monitor is a copy of it, like its own copy()
        if a and isinstance(a[0], Obj) and a[0].name in ("COUNTED", "LM_LOADED"):
            return Obj("COPY_OF_COUNTED" if a[0].name == "COUNTED" else "COPY_OF_LOADED")
        return Residual(f"copy({a[0] if a else ''})")

    h["copy.copy"] = cp
    h["copy.deepcopy"] = cp
    h.update(extra(fs, state) if extra else {})
    fa = idx.method("FileCacher", "get_original_headers")
    fm = idx.method("FileCacher", "get_new_line_monitor")

    def program(it):
        fs.files.clear()
        state["phase"] = 1
        state.pop("changed", None)
        if monitor_first:
            # (the cold request is for the line monitor: the other of the two cold paths)
            m1 = it.call_function(fm, {"__pos__": [PATH]}, "self")
            r1 = it.call_function(fa, {"__pos__": [PATH]}, "self")
        else:
            r1 = it.call_function(fa, {"__pos__": [PATH]}, "self")
            m1 = it.call_function(fm, {"__pos__": [PATH]}, "self")
        if between:
            between(fs, state, it)
        state["phase"] = 2
        if not keep_memory:
            it.store["self.pathed_lines_and_headers"] = {}   # a new process: nothing in memory
            for k in it.store.pop("__ctor_keys__", []):
                it.store.pop(k, None)                           # (and whatever else the constructors set up is set up again)
        if monitor_first:
            m2 = it.call_function(fm, {"__pos__": [PATH]}, "self")
            r2 = it.call_function(fa, {"__pos__": [PATH]}, "self")
        else:
            r2 = it.call_function(fa, {"__pos__": [PATH]}, "self")
            m2 = it.call_function(fm, {"__pos__": [PATH]}, "self")
        return r1, m1, r2, m2

    it = Interp(idx, types={"self": "FileCacher", "self.cache": "Cache", "self.csvpaths": "CsvPaths", "self.cache.csvpaths": "CsvPaths"}, inline_all={"FileCacher", "Cache"}, handlers=h, unknown_calls="residual")
    # the owner runs with a non-default dialect: the cache must round-trip whatever the run's delimiter/quotechar are
    ps = it.run_program(program, {"self.pathed_lines_and_headers": {}, "self.csvpaths.delimiter": ";", "self.csvpaths.quotechar": "'",
                                  "self.cache.csvpaths.delimiter": ";", "self.cache.csvpaths.quotechar": "'"})
    return fs, ps


def r2(idx, rep):
    fw = idx.method("FileCacher", "_cache_lines_and_headers")
    fr = idx.method("FileCacher", "_cached_lines_and_headers")
    cw = idx.method("Cache", "cache_text")
    cr = idx.method("Cache", "cached_text")
    rep.analysed(fw, fr, cw, cr, *K.opt(idx, "Cache", "_cache_name"))
    header_sets = [["a", "b", "c"], ['"q', "b c", 'x"y'], ["first, last", "x"], [" lead", "trail ", ""], ["multi\nline", "z"], ["'single'", ";semi", "|pipe"], ['"id" no', "n"], ["ü", "日本"]]
    def _safe(fn):
        def h(i, c, r, a, k):
            try:
                return fn(*a, **k)
            except Exception as ex:  # pylint: disable=W0718
                raise Raised(type(ex).__name__)
        return h

    stdlib = {"io.StringIO": lambda i, c, r, a, k: io.StringIO(*a), "csv.writer": _safe(csv.writer), "csv.reader": _safe(csv.reader),
              "hashlib.sha256": lambda i, c, r, a, k: hashlib.sha256(*a), "os.path.join": lambda i, c, r, a, k: "/".join(a),
              "os.path.basename": lambda i, c, r, a, k: (a[0].rpartition("/")[2] if isinstance(a[0], str) else Residual(f"os.path.basename({a[0]})"))}

    def _nofile(i, c, r, a, k):
        raise Raised("FileNotFoundError")

    # tables that are not about the file's state run on a path that cannot be stat'ed (the cache then keys on the path alone)
    for nm in ("os.stat", "os.path.getmtime", "os.path.getsize"):
        stdlib[nm] = _nofile
    fa = idx.method("FileCacher", "get_original_headers")
    rep.analysed(fa, idx.method("FileCacher", "get_new_line_monitor"))
    bad = None
    badl = None
    for hs in header_sets:
        fs, ps = cacher_history(idx, stdlib, hs)
        if len(ps) != 1 or ps[0].result[0] != "return":
            bad = bad or f"headers {hs}: {[p.result for p in ps][:2]}"
            continue
        r1, m1, r2_, m2 = ps[0].result[1]
        counts = [v for kk, v in ps[0].calls("count")]
        if r1 != hs or r2_ != hs:
            csvs = [v for k, v in fs.files.items() if k.endswith(".csv")]
            bad = bad or (f"headers {hs!r} are cached as {csvs[-1] if csvs else None!r} and read back as {r2_!r} (cold run: {r1!r}): a warm cache gives a later process "
                          "different headers than the cold run")
        elif counts != [1]:
            bad = bad or f"headers {hs!r}: LineCounter runs in phases {counts}; documented: once, cold (the second process is served from the cache)"
        loads = [v for kk, v in ps[0].calls("load")]
        if not (m1 == Obj("COPY_OF_COUNTED") and m2 == Obj("COPY_OF_LOADED") and loads and all(x == '{"n": 1}' for x in loads)):
            badl = badl or f"cold monitor {m1!r}, warm monitor {m2!r}, LineMonitor.load called with {loads}; documented: the counted monitor's dump() is what the warm process load()s, and both hand out copies"
    rep.check(bad is None, "R2", f"{fw.file}::header cache round trip", bad or f"{len(header_sets)} header lists", K.where(fw, fw.node))
    rep.check(badl is None, "R2", f"{fw.file}::line monitor cache uses dump/load", badl or "", K.where(fw, fw.node))
    # which cache states are a hit: only a complete entry (line counts AND headers). After a complete entry was written one of the two
    # files is removed (an interrupted earlier process, a cleaned cache directory): the cacher must count the file again
    ff = idx.method("FileCacher", "_find_lines_and_headers") if idx.has_method("FileCacher", "_find_lines_and_headers") else fa
    rep.analysed(ff)
    bad = None
    for drop in ((), ("json",), ("csv",), ("json", "csv")):
        def between(fs, state, it, drop=drop):
            for suffix in drop:
                for k in [k for k in fs.files if k.endswith("." + suffix)]:
                    del fs.files[k]
        fs, ps = cacher_history(idx, stdlib, ["a", "b"], between=between)
        if len(ps) != 1 or ps[0].result[0] != "return":
            bad = bad or f"cache entry without {list(drop)}: {[p.result for p in ps][:2]}"
            continue
        r1, m1, r2_, m2 = ps[0].result[1]
        counted = 2 in [v for kk, v in ps[0].calls("count")]
        if counted != bool(drop):
            bad = bad or (f"cache entry with {'nothing' if not drop else ' and '.join(drop)} missing: the file is {'counted again' if counted else 'NOT counted again'} "
                          f"and the second process gets headers {r2_!r}; only a complete entry (line counts and headers) is a hit")
        elif r2_ != ["a", "b"]:
            bad = bad or f"cache entry without {list(drop)}: headers served are {r2_!r}, documented ['a', 'b']"
    rep.check(bad is None, "R2", f"{ff.file}::FileCacher._find_lines_and_headers partial cache entries", bad or "4 cache states", K.where(ff, ff.node))
    # a cache entry describes one state of the file: after the file at that path was rewritten (other size / modification time) the
    # entry of the earlier content must not be served (a later job on the same path would get the earlier job's line counts and headers)
    class _Stat:
        def __init__(self, size, mtime_ns):
            self.st_size, self.st_mtime_ns, self.st_mtime = size, mtime_ns, mtime_ns / 1e9

        def __deepcopy__(self, memo):
            return self

    bad = None
    for change in ("unchanged", "rewritten", "other dialect", "unchanged, same process", "rewritten, same process", "other dialect, same process"):
        def extra(fs, state):
            hx = {}
            for nm in ("os.stat", "os.path.getmtime", "os.path.getsize"):
                def _st(i, c, r, a, k, nm=nm):
                    if a[0] != PATH:
                        raise Raised("FileNotFoundError")
                    st = _Stat(30, 2000) if state.get("changed") else _Stat(8, 1000)
                    if nm == "os.stat":
                        for f in ("st_size", "st_mtime_ns", "st_mtime"):
                            i.store["STAT." + f] = getattr(st, f)
                        return Obj("STAT")
                    return st.st_mtime if nm.endswith("getmtime") else st.st_size
                hx[nm] = _st
            hx["os.path.exists"] = lambda i, c, r, a, k: a[0] == PATH or a[0] in fs.files
            return hx

        def between(fs, state, it, change=change):
            if change.startswith("rewritten"):
                state["changed"] = True
            if change.startswith("other dialect"):
                # the later process reads the same file with another delimiter / quotechar (a different CsvPaths configuration)
                for k in ("self.csvpaths.delimiter", "self.cache.csvpaths.delimiter"):
                    it.store[k] = "|"
                for k in ("self.csvpaths.quotechar", "self.cache.csvpaths.quotechar"):
                    it.store[k] = '"'
        fs, ps = cacher_history(idx, stdlib, ["a", "b"], between=between, recount_headers=["c", "d"], extra=extra, keep_memory=change.endswith("same process"))
        if len(ps) != 1 or ps[0].result[0] != "return":
            bad = bad or f"file {change}: {[p.result for p in ps][:2]}"
            continue
        r1, m1, r2_, m2 = ps[0].result[1]
        recounted = 2 in [v for kk, v in ps[0].calls("count")]
        if change == "rewritten, same process" and (not recounted or r2_ != ["c", "d"]):
            bad = bad or ("the file at a path this CsvPaths instance has already read was rewritten (size 8 → 30, later modification time): the instance still serves the earlier "
                          f"content's line counts and headers {r2_!r} from memory (counted again: {recounted}); a later job on the same instance stops at the old line count")
        elif change.startswith("unchanged") and (recounted or r2_ != ["a", "b"]):
            bad = bad or f"file unchanged since it was cached: the entry is not found (counted again: {recounted}, headers {r2_!r})"
        elif change == "other dialect" and (not recounted or r2_ != ["c", "d"]):
            bad = bad or ("the file was cached by a process reading it with delimiter ';' and quotechar \"'\"; a later process reading it with delimiter '|' is served that entry "
                          f"(headers {r2_!r}, counted again: {recounted}): its headers and line counts are the other dialect's, so warm and cold runs differ")
        elif change == "other dialect, same process" and (not recounted or r2_ != ["c", "d"]):
            bad = bad or ("the CsvPaths instance read the file with delimiter ';' and quotechar \"'\", then its delimiter was set to '|' and it read the file again: it is served "
                          f"the first reading's entry (headers {r2_!r}, counted again: {recounted}), so its headers and line counts are the other dialect's")
        elif change == "rewritten" and (not recounted or r2_ != ["c", "d"]):
            bad = bad or ("the file at the cached path was rewritten (size 8 → 30, later modification time) and the cache still serves the earlier content's "
                          f"line counts and headers {r2_!r}: a run on the new content stops at the old line count and resolves #names against the old headers")
    rep.check(bad is None, "R2", f"{fr.file}::cache entries are tied to the file's state", bad or "6 histories", K.where(cr, cr.node))
    # cache key: distinct paths (also with the same file name) get distinct keys; the same path the same key
    fn = idx.method("Cache", "_cache_name")
    keys = {}
    for pth, dl, qc in (("/a/x/data.csv", ",", '"'), ("/a/y/data.csv", ",", '"'), ("/a/x/data.csv", ",", '"'), ("data.csv", ",", '"'), ("/b/one.csv", ",", '"'),
                        ("/a/x/data.csv", "|", '"'), ("/a/x/data.csv", ",", "'")):
        it = Interp(idx, types={"self": "Cache", "self.csvpaths": "CsvPaths"}, handlers=stdlib, unknown_calls="error")
        ps = it.run_all(fn, args={"filename": pth}, store={"self.csvpaths.delimiter": dl, "self.csvpaths.quotechar": qc})
        if len(ps) != 1 or ps[0].result[0] != "return":
            raise AnalysisError(f"Cache._cache_name not evaluable: {[p.result for p in ps]}")
        keys.setdefault(ps[0].result[1], set()).add(pth if (dl, qc) == (",", '"') else f"{pth} read with delimiter {dl!r} quotechar {qc!r}")
    coll = [sorted(v) for v in keys.values() if len(v) > 1]
    rep.check(not coll and len(keys) == 6, "R2", f"{fn.file}::Cache._cache_name distinguishes paths",
              f"different files, or one file read with different dialects, share a cache entry: {coll} (every source-mode: preceding input is called data.csv: a later run would get an earlier run's line counts and headers)", K.where(fn, fn.node))
    # LineMonitor dump/load/copy agree field by field (interpreted: a monitor with eight distinct counters is dumped, the text is
    # loaded into a fresh monitor, and the monitor is copied; every counter must arrive unchanged — json is executed as trusted base)
    import json as _json
    ci = idx.cls("LineMonitor")
    fields = sorted(t.attr for t, v, st in K.stores_in(ci.methods["__init__"].node) if isinstance(t, ast.Attribute) and t.attr != "_last_line_stats")
    rep.analysed(ci.methods["dump"], ci.methods["load"], ci.methods["copy"])
    values = {f: 11 + n for n, f in enumerate(fields)}

    def new_lm(i, c, r, a, k):
        n = i.store.get("__lm__", 0) + 1
        i.store["__lm__"] = n
        name = f"LM{n}"
        i.types[name] = "LineMonitor"
        i.call_function(ci.methods["__init__"], {"__pos__": []}, name)
        return Obj(name)

    def program(it):
        it.types["A"] = "LineMonitor"
        it.types["B"] = "LineMonitor"
        text = it.call_function(ci.methods["dump"], {"__pos__": []}, "A")
        it.call_function(ci.methods["__init__"], {"__pos__": []}, "B")
        it.call_function(ci.methods["load"], {"__pos__": [text]}, "B")
        cp = it.call_function(ci.methods["copy"], {"__pos__": []}, "A")
        return text, cp

    it = Interp(idx, types={"A": "LineMonitor", "B": "LineMonitor"}, inline_all={"LineMonitor"}, inline={f"LineMonitor.{p_}" for p_ in ci.properties}, unknown_calls="residual",
                handlers={"LineMonitor": new_lm, "json.dumps": lambda i, c, r, a, k: _json.dumps(*a, **k), "json.loads": lambda i, c, r, a, k: _json.loads(*a, **k)})
    ps = it.run_program(program, {f"A.{f}": v for f, v in values.items()})
    bad = []
    if len(ps) != 1 or ps[0].result[0] != "return":
        bad.append(f"dump/load/copy are not one normal path on the model: {[p.result for p in ps][:2]}")
    else:
        text, cp = ps[0].result[1]
        fsr = ps[0].final_store
        for f in fields:
            if fsr.get(f"B.{f}") != values[f]:
                bad.append(f"load(dump()): {f} is {fsr.get('B.' + f)!r}, was {values[f]}")
            if not isinstance(cp, Obj) or fsr.get(f"{cp.name}.{f}") != values[f]:
                bad.append(f"copy(): {f} is {fsr.get(cp.name + '.' + f) if isinstance(cp, Obj) else cp!r}, was {values[f]}")
            if fsr.get(f"A.{f}") != values[f]:
                bad.append(f"dump()/copy() changed the source's {f}")
        if isinstance(cp, Obj) and cp.name in ("A", "B"):
            bad.append("copy() returns the monitor itself")
    rep.check(not bad and len(fields) == 8, "R2", f"{ci.file}::LineMonitor dump/load/copy agree", "; ".join(bad[:6]) or f"{len(fields)} fields", ci.file)


def r4(idx, rep):
    path_is_not_a_name(idx, rep, "R4")
    fi = idx.method("CsvPath", "get_total_lines_and_headers")
    rep.analysed(fi)
    it = Interp(idx, types={"self": "CsvPath"}, unknown_calls="residual",
                handlers={"LineCounter": lambda i, c, r, a, k: Obj("lc"), "lc.get_lines_and_headers": lambda i, c, r, a, k: (Obj("LM"), Obj("HDRS"))})
    bad = None
    for p in it.run_eager(fi, {"self.csvpaths": [Obj("cps"), None]}, store={"self.scanner": Obj("scanner"), "scanner.filename": "f.csv"}):
        lm = p.sets("self.line_monitor")
        hd = p.sets("self.headers")
        if p.cfg["self.csvpaths"] is None:
            if lm != [Obj("LM")] or hd != [Obj("HDRS")]:
                bad = bad or f"standalone: line_monitor {lm}, headers {hd}"
        else:
            okl = len(lm) == 1 and isinstance(lm[0], Residual) and lm[0].text.startswith("cps.file_manager.cacher.get_new_line_monitor(")
            okh = len(hd) == 1 and isinstance(hd[0], Residual) and hd[0].text.startswith("cps.file_manager.cacher.get_original_headers(")
            if not (okl and okh):
                bad = bad or f"managed: line_monitor {lm}, headers {hd}"
    rep.check(bad is None, "R4", f"{fi.file}::CsvPath.get_total_lines_and_headers sources", bad or "", K.where(fi, fi.node))
    # the cacher's cold path is the same LineCounter; the warm path serves the cached pair (public accessors, two lives on one model disk)
    import io as _io
    import csv as _csv
    import hashlib as _hl

    def _safe(fn):
        def h(i, c, r, a, k):
            try:
                return fn(*a, **k)
            except Exception as ex:  # pylint: disable=W0718
                raise Raised(type(ex).__name__)
        return h

    def _nofile(i, c, r, a, k):
        raise Raised("FileNotFoundError")

    stdlib = {"io.StringIO": lambda i, c, r, a, k: _io.StringIO(*a), "csv.writer": _safe(_csv.writer), "csv.reader": _safe(_csv.reader),
              "hashlib.sha256": lambda i, c, r, a, k: _hl.sha256(*a), "os.path.join": lambda i, c, r, a, k: "/".join(a),
              "os.path.basename": lambda i, c, r, a, k: (a[0].rpartition("/")[2] if isinstance(a[0], str) else Residual(f"os.path.basename({a[0]})")),
              "os.stat": _nofile, "os.path.getmtime": _nofile, "os.path.getsize": _nofile}
    fs, ps = cacher_history(idx, stdlib, ["h"])
    ff = idx.method("FileCacher", "get_new_line_monitor")
    okc = len(ps) == 1 and ps[0].result[0] == "return"
    d = f"{[p.result for p in ps][:2]}"
    if okc:
        r1, m1, r2_, m2 = ps[0].result[1]
        counts = [v for kk, v in ps[0].calls("count")]
        okc = r1 == ["h"] and m1 == Obj("COPY_OF_COUNTED") and counts == [1] and len(fs.files) == 2
        d = f"cold: headers {r1!r}, monitor {m1!r}, LineCounter phases {counts}, cache files {sorted(fs.files)}"
    rep.check(okc, "R4", f"{ff.file}::FileCacher cold path counts with LineCounter, caches and keeps exactly that", d, K.where(ff, ff.node))
    okw = len(ps) == 1 and ps[0].result[0] == "return" and ps[0].result[1][2] == ["h"] and ps[0].result[1][3] == Obj("COPY_OF_LOADED")
    rep.check(okw, "R4", f"{ff.file}::FileCacher warm path uses the cached pair", f"{ps[0].result if ps else None}", K.where(ff, ff.node))


def _pure_helper_call(fi, call):
    """a call (result discarded, e.g. a validity probe inside try/except) of a helper of the same class whose body stores nothing and
    calls nothing that mutates or does I/O"""
    if not (isinstance(call.func, ast.Attribute) and isinstance(call.func.value, ast.Name) and call.func.value.id in ("self", "cls", fi.cls or "")):
        return False
    idx = _IDX[0]
    if idx is None or not fi.cls or not idx.has_method(fi.cls, call.func.attr):
        return False
    m = idx.method(fi.cls, call.func.attr)
    for n in ast.walk(m.node):
        if isinstance(n, (ast.Attribute, ast.Subscript)) and isinstance(n.ctx, (ast.Store, ast.Del)):
            return False
        if isinstance(n, (ast.Global, ast.Nonlocal, ast.Yield, ast.YieldFrom)):
            return False
        if isinstance(n, ast.Call) and (call_name(n) in MUTATORS or call_name(n) in ("open", "print", "write", "remove", "makedirs", "mkdir", "rename", "unlink", "rmtree")):
            return False
        if isinstance(n, ast.Call) and isinstance(n.func, ast.Attribute) and isinstance(n.func.value, ast.Name) and n.func.value.id in ("self", "cls"):
            return False   # not followed further
    return True


_IDX = [None]


def _order_free_loop(fi, loop):
    """a loop over a directory listing whose only effect is appending to one local list, which is used afterwards only through sorted(…) /
    after .sort(): the order of the listing cannot be observed"""
    sink = None
    for st in ast.walk(loop):
        if isinstance(st, (ast.Assign, ast.AugAssign, ast.Delete, ast.Yield, ast.YieldFrom, ast.Return, ast.Break, ast.With, ast.Raise)):
            return False
        if isinstance(st, ast.Expr) and isinstance(st.value, ast.Call):
            c = st.value
            if isinstance(c.func, ast.Attribute) and c.func.attr == "append" and isinstance(c.func.value, ast.Name):
                if sink not in (None, c.func.value.id):
                    return False
                sink = c.func.value.id
            else:
                d = dotted(c.func) or ""
                if not (".logger." in "." + d or d.startswith("logging.") or _pure_helper_call(fi, c)):
                    return False
    if sink is None:
        return False
    parents = {}
    for p_ in ast.walk(fi.node):
        for ch in ast.iter_child_nodes(p_):
            parents[id(ch)] = p_
    inside = {id(x) for x in ast.walk(loop)}
    sorted_after = False
    for n in ast.walk(fi.node):
        if not (isinstance(n, ast.Name) and n.id == sink and id(n) not in inside):
            continue
        par = parents.get(id(n))
        if isinstance(n.ctx, ast.Store):
            continue   # its initialisation
        if isinstance(par, ast.Call) and call_name(par) == "sorted" and par.args and par.args[0] is n:
            sorted_after = True
            continue
        if isinstance(par, ast.Attribute) and par.attr == "sort":
            sorted_after = True
            continue
        if isinstance(par, ast.Call) and call_name(par) == "len":
            continue
        return False
    return sorted_after


def path_is_not_a_name(idx, rep, rid):
    """A csvpath of a CsvPaths may name its file by path (`$/data/f.csv[*][…]`, `$data/f.csv[…]`) exactly like a bare CsvPath: the file manager
    must answer "no such named file" for a path — also for an absolute one, which os.path.join hands back unchanged so that the data file
    itself would pass for the named file's home — and must not consult the registrar about it."""
    fg = idx.method("FileManager", "get_named_file")
    rep.analysed(fg, idx.method("FileManager", "name_exists"))
    import os as _os
    bad = None
    existing = {"/abs/data/f.csv", "IN/named_files", "IN/named_files/orders", "rel/f.csv"}
    for name, want in (("/abs/data/f.csv", None), ("rel/f.csv", None), ("orders", "REGISTERED:IN/named_files/orders"), ("nosuch", None)):
        it = Interp(idx, types={"self": "FileManager"}, unknown_calls="residual", inline_all={"FileManager"}, inline={f"FileManager.{p_}" for p_ in idx.cls("FileManager").properties},
                    handlers={"os.path.join": lambda i, c, r, a, k: _os.path.join(*a), "os.path.exists": lambda i, c, r, a, k: a[0] in existing,
                              "os.path.isdir": lambda i, c, r, a, k: a[0] in existing and not a[0].endswith(".csv"), "os.path.isabs": lambda i, c, r, a, k: _os.path.isabs(a[0]),
                              "self.registrar.registered_file": lambda i, c, r, a, k: "REGISTERED:" + str(a[0])},
                    domains={"self._csvpaths.config.inputs_files_path": ["IN/named_files"]})
        ps = it.run_all(fg, args={"name": name})
        if len(ps) != 1 or ps[0].result != ("return", want):
            bad = bad or (f"FileManager.get_named_file({name!r}) = {[p.result for p in ps][:2]}, documented {want!r}: a path given where a name could stand is not a registered "
                          "name (the csvpath then runs on the path itself, as it does in a bare CsvPath)")
    rep.check(bad is None, rid, f"{fg.file}::FileManager.get_named_file does not take a path for a name", bad or "4 names", K.where(fg, fg.node))


def r5(idx, rep):
    _IDX[0] = idx
    listed = {"FileManager.add_named_files_from_dir": "registration order of a directory listing (documented)", "PathsManager.add_named_paths_from_dir": "sorted below",
              "ResultsManager.list_named_results": "sorted", "ResultsManager._find": "sorted by parsed time in _find_in_dir_names",
              "LogUtility": "logging", "FileManager.named_file_names": "inventory of the store, not a run result",
              "PathsManager.named_paths_names": "inventory of the store, not a run result"}
    n = 0
    for fi in idx.all_funcs():
        if fi.file.startswith("csvpath/cli/") or fi.file.startswith("csvpath/managers/ol/"):
            continue
        for c in walk_no_nested(fi.node):
            if isinstance(c, ast.Call) and call_name(c) == "hash" and isinstance(c.func, ast.Name):
                n += 1
                rep.fail("R5", f"{fi.file}::{fi.qual} builtin hash()", f"`{unparse(c)}`: str hashes are salted per process", K.where(fi, c))
            if isinstance(c, (ast.For, ast.comprehension)):
                it = c.iter
                if isinstance(it, ast.Call) and call_name(it) == "set" or isinstance(it, (ast.Set, ast.SetComp)):
                    n += 1
                    rep.fail("R5", f"{fi.file}::{fi.qual} iterates a set", unparse(it)[:80], K.where(fi, fi.node))
                if isinstance(it, ast.Call) and call_name(it) == "listdir":
                    n += 1
                    if fi.qual not in listed and fi.cls not in listed and isinstance(c, ast.For) and _order_free_loop(fi, c):
                        rep.ok("R5", f"{fi.file}::{fi.qual} iterates os.listdir unsorted", "the loop only filters names into a list that is sorted before it is used", K.where(fi, fi.node))
                        continue
                    rep.check(fi.qual in listed or fi.cls in listed, "R5", f"{fi.file}::{fi.qual} iterates os.listdir unsorted", unparse(it)[:80], K.where(fi, fi.node))
    rep.ok("R5", "scan complete", f"{n} candidate sites", "csvpath/")
