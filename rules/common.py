"""helpers shared by the per-property rule modules"""
import ast

from sa.index import AnalysisError, unparse, dotted, call_name, call_receiver, walk_no_nested, stores_in
from sa import guards as G
from sa.flow import Must, own_calls, own_nodes, find_stmts, handler_of


def attr_stores(idx, names, path_prefix=None):
    """every store whose target is an Attribute named in `names` → list of dict(fi, target, value, stmt)"""
    out = []
    for fi in idx.all_funcs(path_prefix):
        for t, v, st in stores_in(fi.node):
            if isinstance(t, ast.Attribute) and t.attr in names:
                out.append(dict(fi=fi, target=t, value=v, stmt=st))
    return out


def _const_table(idx, fi, node):
    """the literal container a loop iterates when it is a class-/module-level constant table (or its items()/keys()), else None"""
    mode = "seq"
    if isinstance(node, ast.Call) and isinstance(node.func, ast.Attribute) and node.func.attr in ("items", "keys", "values") and not node.args:
        mode = node.func.attr
        node = node.func.value
    tbl = None
    if isinstance(node, ast.Attribute) and isinstance(node.value, ast.Name):
        cname = fi.cls if node.value.id in ("self", "cls") else node.value.id
        if cname and idx.has_cls(cname):
            for c in idx.mro(cname):
                if node.attr in c.class_assigns:
                    tbl = c.class_assigns[node.attr]
                    break
    elif isinstance(node, ast.Name):
        tbl = idx.module_consts.get((fi.file, node.id))
    elif isinstance(node, (ast.Tuple, ast.List, ast.Dict)):
        tbl = node
    if isinstance(tbl, ast.Dict):
        if mode in ("seq", "keys"):
            return list(tbl.keys)
        if mode == "values":
            return list(tbl.values)
        return [ast.Tuple(elts=[k, v], ctx=ast.Load()) for k, v in zip(tbl.keys, tbl.values)]
    if isinstance(tbl, (ast.Tuple, ast.List)) and mode == "seq":
        return list(tbl.elts)
    return None


def possible_strings(idx, fi, node):
    """the set of strings an expression used as an attribute name can take, when that is decided by the source: a literal, or a loop
    variable running over a constant table; None when unknown"""
    if isinstance(node, ast.Constant):
        return {node.value} if isinstance(node.value, str) else None
    if isinstance(node, ast.JoinedStr):
        outs = {""}
        for part in node.values:
            if isinstance(part, ast.Constant):
                ps = {str(part.value)}
            elif isinstance(part, ast.FormattedValue) and part.format_spec is None and part.conversion == -1:
                ps = possible_strings(idx, fi, part.value)
            else:
                ps = None
            if ps is None:
                return None
            outs = {a + b for a in outs for b in ps}
        return outs
    if not isinstance(node, ast.Name):
        return None
    loops = [n for n in walk_no_nested(fi.node) if isinstance(n, (ast.For, ast.comprehension)) and any(isinstance(x, ast.Name) and x.id == node.id for x in ast.walk(n.target))]
    plain = [n for n in walk_no_nested(fi.node) if isinstance(n, (ast.Assign, ast.AugAssign, ast.AnnAssign, ast.NamedExpr, ast.With)) and any(
        isinstance(x, ast.Name) and x.id == node.id and isinstance(x.ctx, ast.Store) for x in ast.walk(n))]
    params = {a.arg for a in fi.node.args.args + fi.node.args.kwonlyargs + fi.node.args.posonlyargs}
    if not loops or plain or node.id in params:
        return None
    out = set()
    for lp in loops:
        rows = _const_table(idx, fi, lp.iter)
        if rows is None:
            return None
        for r in rows:
            if isinstance(lp.target, ast.Name):
                el = r
            elif isinstance(lp.target, ast.Tuple) and isinstance(r, ast.Tuple) and len(r.elts) == len(lp.target.elts):
                pos = [i for i, x in enumerate(lp.target.elts) if isinstance(x, ast.Name) and x.id == node.id]
                if len(pos) != 1:
                    return None
                el = r.elts[pos[0]]
            else:
                return None
            if not (isinstance(el, ast.Constant) and isinstance(el.value, str)):
                return None
            out.add(el.value)
    return out


def reflection_uses(idx, names):
    """setattr(x, '<name>', ..) / __dict__ stores that could bypass a who-may-write rule"""
    out = []
    for fi in idx.all_funcs():
        for n in walk_no_nested(fi.node):
            if isinstance(n, ast.Call) and call_name(n) == "setattr" and len(n.args) >= 2:
                poss = possible_strings(idx, fi, n.args[1])
                if poss is None or poss & set(names):
                    out.append((fi, n))
            if isinstance(n, ast.Attribute) and n.attr == "__dict__" and isinstance(getattr(n, "ctx", None), ast.Load):
                # only flag when used as a store target base
                pass
        for t, v, st in stores_in(fi.node):
            if isinstance(t, ast.Subscript) and isinstance(t.value, ast.Attribute) and t.value.attr == "__dict__":
                out.append((fi, st))
    return out


def calls_named(idx, names, path_prefix=None):
    """every call whose callee's last name is in `names` → list of dict(fi, call, recv)"""
    out = []
    for fi in idx.all_funcs(path_prefix):
        for n in walk_no_nested(fi.node):
            if isinstance(n, ast.Call) and call_name(n) in names:
                out.append(dict(fi=fi, call=n, recv=call_receiver(n)))
    return out


def stmt_of(fi, node):
    """the statement of fi owning expression node"""
    st = G.enclosing_stmt(fi.node, node)
    if st is None:
        raise AnalysisError(f"cannot locate the statement of {unparse(node)} in {fi.qual}")
    return st


def guard_of(fi, node_or_stmt):
    st = node_or_stmt if isinstance(node_or_stmt, ast.stmt) else stmt_of(fi, node_or_stmt)
    return G.condition_of(fi.node, st)


def is_const(node, value):
    return isinstance(node, ast.Constant) and node.value is value


def resolve_const(idx, fi, node):
    """resolve a Name bound once at module level / class level of the same file to a Constant"""
    if isinstance(node, ast.Constant):
        return node
    if isinstance(node, ast.Name):
        tree = idx.file_tree(fi.file)
        hits = []
        for st in tree.body:
            if isinstance(st, ast.Assign):
                for t in st.targets:
                    if isinstance(t, ast.Name) and t.id == node.id:
                        hits.append(st.value)
        if len(hits) == 1 and isinstance(hits[0], ast.Constant):
            return hits[0]
    return node


def formula(src, subst=None):
    """formula from a python expression string (for specification tables)"""
    return G.to_formula(ast.parse(src, mode="eval").body, subst)


def equiv(f, g, constraint=None):
    return G.equivalent(f, g, constraint)


def has_call(st, name, recv_suffix=None):
    for c in own_calls(st):
        if call_name(c) == name:
            if recv_suffix is None:
                return True
            r = call_receiver(c) or ""
            if r.endswith(recv_suffix):
                return True
    return False


def call_pred(name, recv_suffix=None):
    return lambda st: has_call(st, name, recv_suffix)


def store_pred(attr, value_pred=None):
    def p(st):
        if isinstance(st, ast.Assign):
            for t in st.targets:
                if isinstance(t, ast.Attribute) and t.attr == attr:
                    if value_pred is None or value_pred(st.value):
                        return True
        if isinstance(st, ast.AugAssign) and isinstance(st.target, ast.Attribute) and st.target.attr == attr:
            return value_pred is None
        return False

    return p


def where(fi, node):
    return f"{fi.file}:{getattr(node, 'lineno', '?')} in {fi.qual}"


def implies(f, g, constraint=None):
    return G.implies(f, g, constraint)


def instance_store(idx, cls, selfkey="self"):
    """attribute defaults of an instance: the class's __init__ interpreted with symbolic arguments; only concrete
    values are kept (so a per-instance buffer such as `self._buf = []` is visible to later tables)"""
    from sa.absint import Interp, Residual
    import copy
    try:
        fi = idx.method(cls, "__init__")
    except AnalysisError:
        return {}
    from sa.absint import Obj

    def _super_init(interp, call, recv, cargs, ckwargs):
        # super().__init__(...) → the next __init__ in the MRO after the class whose __init__ is being interpreted, on the same instance
        chain = [c for c in idx.mro(cls) if "__init__" in c.methods]
        cur = interp.path.__dict__.setdefault("_init_depth", 0)
        if cur + 1 < len(chain):
            interp.path.__dict__["_init_depth"] = cur + 1
            a2 = dict(ckwargs)
            a2["__pos__"] = list(cargs)
            interp.call_function(chain[cur + 1].methods["__init__"], a2, selfkey)
            interp.path.__dict__["_init_depth"] = cur
        return None

    # stores to names the class (or a base) defines as properties go through the setters, as they do in Python
    props = set()
    for c in idx.mro(cls):
        props |= {f"{c.name}.{p}" for p in c.properties}
        props |= {f"{cls}.{p}" for p in c.properties}
    it = Interp(idx, types={selfkey: cls}, unknown_calls="residual", inline=props,
                handlers={"super": lambda i, c, r, a, k: Obj("__super__"), "__super__.__init__": _super_init})
    a = fi.node.args
    args = {p.arg: Residual(p.arg) for p in (a.args[1:] + a.kwonlyargs)}
    try:
        ps = it.run_all(fi, args=args, selfkey=selfkey)
    except AnalysisError:
        return ctor_literals(idx, cls, selfkey)
    if len(ps) != 1:
        ps = ps[:1]
    out = {}
    for k, v in ps[0].final_store.items():
        if k.startswith(selfkey + ".") and not isinstance(v, Residual):
            out[k] = copy.deepcopy(v)
    return out


def ctor_literals(idx, cls, selfkey="self"):
    """the attributes the constructors of the class family set to a literal in their straight-line part (`self.x = None`, `= []`, `= 0`);
    an attribute that is also assigned something else there is left out.  The fallback of instance_store for a constructor that does
    real work (parses, opens) and cannot be interpreted whole."""
    import copy
    out, dropped = {}, set()
    for c in reversed(idx.mro(cls)):
        init = c.methods.get("__init__")
        for st in (init.node.body if init else ()):
            for n in ast.walk(st):
                tgts = n.targets if isinstance(n, ast.Assign) else [n.target] if isinstance(n, (ast.AnnAssign, ast.AugAssign)) else []
                for t in tgts:
                    for t1 in (t.elts if isinstance(t, ast.Tuple) else [t]):
                        if isinstance(t1, ast.Attribute) and isinstance(t1.value, ast.Name) and t1.value.id == "self":
                            k = f"{selfkey}.{t1.attr}"
                            v = getattr(n, "value", None)
                            lit = None
                            if n is st and isinstance(n, (ast.Assign, ast.AnnAssign)) and v is not None and not isinstance(t, ast.Tuple):
                                try:
                                    lit = (ast.literal_eval(v),)
                                except (ValueError, SyntaxError):
                                    if isinstance(v, ast.Call) and isinstance(v.func, ast.Name) and v.func.id in ("dict", "list") and not v.args and not v.keywords:
                                        lit = ({} if v.func.id == "dict" else [],)
                            if lit is None:
                                dropped.add(k)
                                out.pop(k, None)
                            elif k not in dropped:
                                out[k] = copy.deepcopy(lit[0])
    return out


def sym_result(idx, cls, meth, *, args=None, store=None, handlers=None, domains=None, inline=(), selfkey="self", unknown="residual", types=None):
    """interpret cls.meth (property getters too) and return (paths); convenience for 'what does this accessor return'"""
    from sa.absint import Interp
    fi = idx.method(cls, meth)
    t = {selfkey: cls}
    t.update(types or {})
    it = Interp(idx, types=t, unknown_calls=unknown, handlers=handlers or {}, domains=domains or {}, inline=set(inline))
    return fi, it.run_all(fi, args=dict(args or {}), store=dict(store or {}), selfkey=selfkey)


def returns(idx, cls, meth, want, **kw):
    """(ok, detail): the accessor has exactly one path and returns `want` (a value, or a string to compare with a residual's text)"""
    from sa.absint import Residual
    fi, ps = sym_result(idx, cls, meth, **kw)
    if len(ps) != 1 or ps[0].result[0] != "return":
        return fi, False, f"{[p.result for p in ps]}"
    v = ps[0].result[1]
    if isinstance(v, Residual) and isinstance(want, str):
        return fi, v.text == want, f"returns `{v.text}`, expected `{want}`"
    return fi, v == want, f"returns {v!r}, expected {want!r}"


JOIN = {"os.path.join": lambda i, c, r, a, k: "/".join(str(x) for x in a)}


def reference_parser_handler(idx):
    """a handler for `ReferenceParser(string)` that interprets the real class (constructor + parse) on an abstract object"""
    from sa.absint import Obj
    methods = {f"ReferenceParser.{m}" for m in idx.cls("ReferenceParser").methods}

    def h(interp, call, recv, args, kwargs):
        n = interp.store.get("__ref_n__", 0) + 1
        interp.store["__ref_n__"] = n
        o = Obj(f"ref{n}")
        interp.types[o.name] = "ReferenceParser"
        interp.inline |= methods
        consts = idx.cls("ReferenceParser").class_assigns
        for k, v in consts.items():
            if isinstance(v, ast.Constant):
                interp.store.setdefault(f"ReferenceParser.{k}", v.value)
        fi = idx.method("ReferenceParser", "__init__")
        a = {"__pos__": list(args)}
        a.update(kwargs)
        interp.call_function(fi, a, o.name)
        # the property setters store through the public names; mirror them onto the private ones the getters read
        for pub, priv in (("root_major", "_root_major"), ("root_minor", "_root_minor"), ("datatype", "_datatype"), ("names", "_names")):
            if f"{o.name}.{pub}" in interp.store:
                interp.store[f"{o.name}.{priv}"] = interp.store[f"{o.name}.{pub}"]
        return o

    return h


class as_rule:
    """report a sibling property's obligations under one of this property's rule ids (optionally only the keys `keep` accepts)"""

    def __init__(self, rep, rid, keep=None):
        self.rep = rep
        self.rid = rid
        self.keep = keep
        self.stats = rep.stats

    def __getattr__(self, n):
        return getattr(self.rep, n)

    def rule(self, rid, text):
        return None

    def floor(self, rid, n, what):
        return None

    def check(self, cond, rid, key, detail="", where=""):
        if self.keep is not None and not self.keep(key):
            return True
        return self.rep.check(cond, self.rid, key, detail, where)

    def ok(self, rid, key, detail="", where=""):
        if self.keep is not None and not self.keep(key):
            return True
        return self.rep.ok(self.rid, key, detail, where)

    def fail(self, rid, key, detail="", where=""):
        if self.keep is not None and not self.keep(key):
            return True
        return self.rep.fail(self.rid, key, detail, where)


def identity_compares(fi):
    """`is` / `is not` between run-time values: identity of str/int/float objects is an interpreter accident (small ints and short strings
    are shared, 'true' read from a file twice is not).  Allowed operands: the None/True/False literals, self, type(...), UPPER_CASE class
    constants and default_match() (a bool)."""
    def fine(x):
        if isinstance(x, ast.Constant) and (x.value is None or isinstance(x.value, bool) or x.value is Ellipsis):
            return True
        if isinstance(x, ast.Name) and x.id in ("self", "cls"):
            return True
        if isinstance(x, ast.Call) and call_name(x) in ("type", "default_match"):
            return True
        if isinstance(x, ast.Attribute) and x.attr.isupper():
            return True
        return False

    def value_like(x):
        # an operand that denotes a data value (not a component object): a str/number literal, something named *value*, the result of
        # to_value()/get_variable()
        if isinstance(x, ast.Constant) and isinstance(x.value, (str, int, float)) and not isinstance(x.value, bool):
            return True
        if isinstance(x, ast.Name) and "value" in x.id.lower():
            return True
        if isinstance(x, ast.Attribute) and "value" in x.attr.lower():
            return True
        if isinstance(x, ast.Call) and call_name(x) in ("to_value", "get_variable", "_value_one", "_value_two"):
            return True
        return False

    out = []
    for c in walk_no_nested(fi.node):
        if isinstance(c, ast.Compare):
            operands = [c.left] + c.comparators
            for i, op in enumerate(c.ops):
                a, b = operands[i], operands[i + 1]
                if isinstance(op, (ast.Is, ast.IsNot)) and not fine(a) and not fine(b) and (value_like(a) or value_like(b)):
                    out.append(c)
    return out


_MUTATORS = {"append", "extend", "insert", "update", "add", "pop", "remove", "clear", "setdefault", "sort", "reverse", "discard", "popitem"}


def _keeps_or_mutates(node, name):
    """the shared default object only matters when the function keeps it (stores it in an attribute/container, returns or yields it) or
    mutates it in place; a default that is only read is harmless"""
    for n in ast.walk(node):
        if isinstance(n, ast.Assign) and isinstance(n.value, ast.Name) and n.value.id == name and any(not isinstance(t, ast.Name) for t in n.targets):
            return True
        if isinstance(n, (ast.Return, ast.Yield)) and isinstance(n.value, ast.Name) and n.value.id == name:
            return True
        if isinstance(n, ast.Call) and isinstance(n.func, ast.Attribute) and n.func.attr in _MUTATORS and isinstance(n.func.value, ast.Name) and n.func.value.id == name:
            return True
        if isinstance(n, (ast.Assign, ast.AugAssign, ast.Delete)):
            tgts = n.targets if isinstance(n, (ast.Assign, ast.Delete)) else [n.target]
            for t in tgts:
                if isinstance(t, ast.Subscript) and isinstance(t.value, ast.Name) and t.value.id == name:
                    return True
                if isinstance(n, ast.AugAssign) and isinstance(t, ast.Name) and t.id == name:
                    return True
    return False


def _mutable_default_sites(funcs):
    out = []
    for fi, node in funcs:
        a = node.args
        pos = a.posonlyargs + a.args
        pairs = list(zip(pos[len(pos) - len(a.defaults):], a.defaults)) + [(k, v) for k, v in zip(a.kwonlyargs, a.kw_defaults) if v is not None]
        for p, v in pairs:
            if isinstance(v, (ast.List, ast.Dict, ast.Set, ast.ListComp, ast.DictComp, ast.SetComp)) or (
                    isinstance(v, ast.Call) and unparse(v.func) in ("list", "dict", "set", "defaultdict", "collections.defaultdict", "deque", "OrderedDict")):
                if _keeps_or_mutates(node, p.arg):
                    out.append((fi, node, p.arg, v))
    return out


def mutable_defaults(idx, rep, rid):
    """a list/dict/set literal as a parameter default is one object shared by every call: state kept in it (a Result's errors, a path's
    variables) survives from one member, run or instance into the next.  Expected count on this code base: zero; the detector is
    exercised on a built-in positive example on every run."""
    probe = ast.parse("def f(self, errors=[], *, seen={}, ro=[], n=0, t=()):\n    self._errors = errors\n    seen[n] = 1\n    return len(ro)\n").body[0]
    ctl = _mutable_default_sites([(None, probe)])
    if [c[2] for c in ctl] != ["errors", "seen"]:
        raise AnalysisError(f"{rep.pid}.{rid}: the mutable-default detector does not recognise its positive example ({[c[2] for c in ctl]})")
    funcs = [(fi, fi.node) for fi in idx.all_funcs("csvpath/")]
    sites = _mutable_default_sites(funcs)
    for fi, node, arg, v in sites:
        rep.fail(rid, f"{fi.file}::{fi.qual} parameter {arg} has a mutable default", f"`{arg}={unparse(v)}` is created once and shared by every call that omits it: whatever one "
                 "member/run stores in it is seen by the next", where(fi, node))
    rep.check(len(funcs) > 1000 and not sites, rid, "csvpath::no mutable default arguments", f"{len(funcs)} functions scanned, {len(sites)} mutable defaults", "csvpath/")


def _guard_flag_sites(funcs):
    """functions that (1) leave early when a boolean attribute is set, (2) set it, do work, and (3) clear it outside a `finally`:
    an exception in the work leaves the flag set and turns every later call into a silent no-op"""
    out = []
    for fi, node in funcs:
        tested = set()
        for n in ast.walk(node):
            if isinstance(n, ast.If) and any(isinstance(x, ast.Return) for x in n.body):
                for a in ast.walk(n.test):
                    if isinstance(a, ast.Attribute):
                        tested.add(unparse(a))
        if not tested:
            continue
        finals = set()
        for n in ast.walk(node):
            if isinstance(n, ast.Try):
                for s in n.finalbody:
                    for x in ast.walk(s):
                        if isinstance(x, ast.Assign):
                            finals.update(unparse(t) for t in x.targets)
        stores = {}
        for n in ast.walk(node):
            if isinstance(n, ast.Assign) and len(n.targets) == 1 and isinstance(n.targets[0], ast.Attribute) and isinstance(n.value, ast.Constant) and isinstance(n.value.value, bool):
                stores.setdefault(unparse(n.targets[0]), []).append(n)
        for k, sts in stores.items():
            vals = {s.value.value for s in sts}
            if k in tested and vals == {True, False} and k not in finals:
                out.append((fi, node, k, sts[0]))
    return out


def guard_flags(idx, rep, rid):
    probe = ast.parse("def f(self, m):\n    if self._busy:\n        return\n    self._busy = True\n    for l in self.ls:\n        l.update(m)\n    self._busy = False\n").body[0]
    good = ast.parse("def f(self, m):\n    if self._busy:\n        return\n    self._busy = True\n    try:\n        self.go(m)\n    finally:\n        self._busy = False\n").body[0]
    if [c[2] for c in _guard_flag_sites([(None, probe)])] != ["self._busy"] or _guard_flag_sites([(None, good)]):
        raise AnalysisError(f"{rep.pid}.{rid}: the guard-flag detector does not recognise its positive/negative examples")
    funcs = [(fi, fi.node) for fi in idx.all_funcs("csvpath/")]
    sites = _guard_flag_sites(funcs)
    for fi, node, k, st in sites:
        rep.fail(rid, f"{fi.file}::{fi.qual} guard flag {k} is not cleared in a finally", f"the function returns early while `{k}` is set, sets it around its work and clears it afterwards: "
                 "an exception in the work leaves it set, and every later call on the object silently does nothing", where(fi, st))
    rep.check(not sites and len(funcs) > 1000, rid, "csvpath::no guard flag is left set by an exception", f"{len(funcs)} functions scanned, {len(sites)} unprotected guard flags", "csvpath/")


def fold_table(idx, cls, meth, member_key, kind="all", source="self.results", source_handler=None, args=None, nmax=3):
    """(ok, detail): cls.meth interpreted over every list of <= nmax members (typed Result, each with or without collected lines, so that
    a truthiness test on the member itself would show) x member values; `all`: the conjunction of the members' <member_key>; `sum`: the sum"""
    import itertools
    from sa.absint import Interp, Obj
    fi = idx.method(cls, meth)
    vals = (True, False) if kind == "all" else (0, 2)
    n_rows = 0
    for n in range(0, nmax + 1):
        for combo in itertools.product(itertools.product(vals, (0, 1)), repeat=n):
            members = [Obj(f"r{i}") for i in range(n)]
            store = {}
            types = {"self": cls}
            for i, (v, nlines) in enumerate(combo):
                types[f"r{i}"] = "Result"
                store[f"r{i}.{member_key}"] = v
                store[f"r{i}._lines"] = [["x"]] * nlines
                store[f"r{i}.lines"] = store[f"r{i}._lines"]
            handlers = {}
            if source_handler:
                handlers[source_handler] = lambda i, c, r, a, k, members=members: list(members)
            else:
                store[source] = list(members)
            ps = Interp(idx, types=types, unknown_calls="residual", handlers=handlers).run_all(fi, args=dict(args or {}), store=store)
            n_rows += 1
            want = all(v for v, _ in combo) if kind == "all" else sum(v for v, _ in combo)
            if len(ps) != 1 or ps[0].result != ("return", want):
                desc = [f"{member_key}={v}, {nl} collected line(s)" for v, nl in combo]
                return fi, False, f"members [{'; '.join(desc)}]: {cls}.{meth} gives {[p.result for p in ps][:2]}, documented {want!r} ({'conjunction' if kind == 'all' else 'sum'} over every member)", n_rows
    # the same question asked twice of one object, the members' values changing in between (a verdict asked for while the run is still going,
    # or before and after a later run): the answer is the fold over the members as they are now
    for n in range(1, nmax + 1):
        for combo in itertools.product(vals, repeat=n):
            members = [Obj(f"r{i}") for i in range(n)]
            first = vals[0]
            store = {}
            types = {"self": cls}
            for i in range(n):
                types[f"r{i}"] = "Result"
                store[f"r{i}.{member_key}"] = first
                store[f"r{i}._lines"] = []
                store[f"r{i}.lines"] = store[f"r{i}._lines"]
            handlers = {}
            if source_handler:
                handlers[source_handler] = lambda i, c, r, a, k, members=members: list(members)
            else:
                store[source] = list(members)
            it = Interp(idx, types=types, unknown_calls="residual", handlers=handlers)

            def program(i, combo=combo, n=n):
                a1 = dict(args or {})
                r1 = i.call_function(fi, a1, "self")
                for j in range(n):
                    i.store[f"r{j}.{member_key}"] = combo[j]
                r2 = i.call_function(fi, dict(args or {}), "self")
                return r1, r2

            ps = it.run_program(program, store)
            n_rows += 1
            w1 = True if kind == "all" else 0
            w2 = all(combo) if kind == "all" else sum(combo)
            if len(ps) != 1 or ps[0].result != ("return", (w1, w2)):
                return fi, False, (f"{n} member(s) with {member_key}={first} when first asked, then {member_key}={list(combo)}: {cls}.{meth} answers {[p.result for p in ps][:2]}, "
                                   f"documented {(w1, w2)!r} (the second answer is the {'conjunction' if kind == 'all' else 'sum'} over the members as they are then)"), n_rows
    return fi, True, f"{n_rows} member lists", n_rows


def resolve_local(fi, expr, depth=3):
    """copy propagation for wiring checks: a local name assigned exactly once in the function (not a parameter, not a loop target) stands
    for the expression assigned to it, so `d = self.delimiter; Reader(delimiter=d)` reads as `delimiter=self.delimiter`"""
    node = fi.node if hasattr(fi, "node") else fi
    for _ in range(depth):
        if not isinstance(expr, ast.Name):
            break
        params = {a.arg for a in node.args.args + node.args.kwonlyargs + node.args.posonlyargs}
        if expr.id in params:
            break
        assigns = []
        other = False
        for n in walk_no_nested(node):
            if isinstance(n, ast.Assign):
                for t in n.targets:
                    if isinstance(t, ast.Name) and t.id == expr.id:
                        assigns.append(n.value)
                    elif isinstance(t, (ast.Tuple, ast.List)) and any(isinstance(x, ast.Name) and x.id == expr.id for x in ast.walk(t)):
                        other = True
            elif isinstance(n, (ast.AugAssign, ast.AnnAssign)) and isinstance(n.target, ast.Name) and n.target.id == expr.id:
                other = True
            elif isinstance(n, (ast.For, ast.comprehension)) and any(isinstance(x, ast.Name) and x.id == expr.id for x in ast.walk(n.target)):
                other = True
            elif isinstance(n, ast.With):
                for it in n.items:
                    if it.optional_vars is not None and any(isinstance(x, ast.Name) and x.id == expr.id for x in ast.walk(it.optional_vars)):
                        other = True
        if other or len(assigns) != 1:
            break
        expr = assigns[0]
    return expr


def kw_text(fi, call):
    """keyword arguments of a call as source text, local single-assignment names resolved"""
    return {k.arg: unparse(resolve_local(fi, k.value)) for k in call.keywords if k.arg}


_CALLERS_CACHE = {}


def callers_of(idx, fi):
    """functions that call a method named like fi (name-based; receiver `self`/`cls` for private helpers)"""
    key = id(idx)
    if key not in _CALLERS_CACHE:
        table = {}
        for f in idx.all_funcs("csvpath/"):
            for n in walk_no_nested(f.node):
                if isinstance(n, ast.Call):
                    nm = call_name(n)
                    if nm:
                        table.setdefault(nm, []).append((f, n))
        _CALLERS_CACHE.clear()
        _CALLERS_CACHE[key] = table
    return _CALLERS_CACHE[key].get(fi.name, [])


def reset_before_every_call(idx, fi, reset_name):
    """True when the function fi has call sites in the package and, at each of them, an unconditional statement `self.<reset_name>()` stands
    earlier in the same block or in an enclosing block of the caller (so it runs before fi is entered on every path)"""
    sites = callers_of(idx, fi)
    if not sites:
        return False
    for f, call in sites:
        found = False

        def visit(body):
            nonlocal found
            seen_reset = False
            for st in body:
                holds = any(n is call for n in ast.walk(st))
                if holds:
                    if seen_reset:
                        found = True
                        return True
                    for fld in ("body", "orelse", "finalbody", "handlers"):
                        sub = getattr(st, fld, None)
                        if isinstance(sub, list):
                            for blk in ([h.body for h in sub] if fld == "handlers" else [sub]):
                                if any(n is call for b in blk for n in ast.walk(b)):
                                    return visit(blk)
                    return True
                if isinstance(st, ast.Expr) and isinstance(st.value, ast.Call) and call_name(st.value) == reset_name:
                    seen_reset = True
            return False

        visit(f.node.body)
        if not found:
            return False
    return True


def owners_of(idx, fi, allowed, depth=4, _seen=()):
    """the members of `allowed` (a set of 'Class.method' names) on whose behalf fi runs: fi itself, or — when fi is a private helper
    (method of the same class hierarchy, or module-level function of the same file) — the allowed functions its call chains come
    from.  Empty when fi is reachable from a function outside `allowed`, or from nowhere.  Makes who-may-write / who-may-call rules
    robust to extract-method refactorings."""
    if fi.qual in allowed:
        return {fi.qual}
    # a method pulled up into a base class is `Sub.method` for every subclass that inherits it unchanged
    if fi.cls:
        inh = set()
        for sname in idx.subclasses(fi.cls):
            q = f"{sname}.{fi.name}"
            if q in allowed and idx.has_method(sname, fi.name) and idx.method(sname, fi.name).node is fi.node:
                inh.add(q)
        if inh:
            return inh
    if depth == 0 or not fi.name.startswith("_") or fi.name.startswith("__"):
        return set()
    owners = set()
    sites = [(f, c) for f, c in callers_of(idx, fi) if (call_receiver(c) or "").split(".")[0] in ("self", "cls", "super()") or call_receiver(c) is None]
    if fi.cls is None:
        sites = [(f, c) for f, c in sites if call_receiver(c) is None and f.file == fi.file]
    else:
        keep = []
        for f, c in sites:
            if f.cls is None:
                return set()
            if f.cls == fi.cls or fi.cls in [k.name for k in idx.mro(f.cls)] or f.cls in [k.name for k in idx.mro(fi.cls)]:
                keep.append((f, c))
        sites = keep
    if not sites:
        return set()
    for f, c in sites:
        if f.node is fi.node or any(f.node is x for x in _seen):
            continue   # recursion / an override calling super(): no new origin
        o = owners_of(idx, f, allowed, depth - 1, _seen + (fi.node,))
        if not o:
            return set()
        owners |= o
    return owners


def owner_of(idx, fi, allowed, depth=4):
    o = owners_of(idx, fi, allowed, depth)
    return min(o) if o else None


def kw_values(idx, fi, call):
    """keyword arguments of a call as the *values* they denote, computed by the interpreter in the function's own context: local
    single-assignment names are resolved, `**helper()` dictionaries are expanded (private helpers are followed), attribute chains come
    back as their dotted text.  Returns name -> text."""
    from sa.absint import Interp, Residual, Obj, Undecidable, Raised, Path
    types = {"self": fi.cls} if fi.cls else {}
    it = Interp(idx, types=types, unknown_calls="residual")
    it.store = {}
    it.path = Path()
    it._prefix, it._decisions, it._memo = [], [], {}
    it._fi_stack = [fi]
    frame = {"__self__": "self"}
    out = {}

    def text(v):
        if isinstance(v, Residual):
            return v.text
        if isinstance(v, Obj):
            return v.name
        return repr(v)

    import copy as _copy

    class _Subst(ast.NodeTransformer):
        # single-assignment locals anywhere inside the expression stand for what was assigned to them
        def visit_Name(self, n):
            if isinstance(n.ctx, ast.Load):
                r = resolve_local(fi, n, depth=1)
                if r is not n:
                    return self.visit(_copy.deepcopy(r))
            return n

    for k in call.keywords:
        try:
            v = it.eval(_Subst().visit(_copy.deepcopy(k.value)), frame)
        except (Undecidable, Raised):
            v = Residual(unparse(k.value))
        if k.arg:
            out[k.arg] = text(v)
        elif isinstance(v, dict):
            for kk, vv in v.items():
                out[kk] = text(vv)
    return out


def field(idx, cls, prop, default=None):
    """the private attribute behind a public property of cls (read from the property's getter: `return self.<field>`), so that rules
    can seed and read state through the name the code uses today, whatever it is called"""
    for c in idx.mro(cls):
        pr = c.properties.get(prop)
        if pr and "get" in pr:
            rets = [n.value for n in walk_no_nested(pr["get"].node) if isinstance(n, ast.Return) and n.value is not None]
            for r in rets:
                if isinstance(r, ast.Attribute) and isinstance(r.value, ast.Name) and r.value.id == "self":
                    return r.attr
            break
    if default is not None:
        return default
    raise AnalysisError(f"cannot find the attribute behind {cls}.{prop}")


def init_field(idx, cls, param):
    """the attribute in which cls.__init__ keeps its parameter `param` (`self.<field> = param`)"""
    fi = idx.method(cls, "__init__")
    for t, v, st in stores_in(fi.node):
        if isinstance(t, ast.Attribute) and isinstance(t.value, ast.Name) and t.value.id == "self" and isinstance(v, ast.Name) and v.id == param:
            return t.attr
    raise AnalysisError(f"cannot find the attribute in which {cls}.__init__ keeps `{param}`")


_NAMES = {}


def names(idx):
    """private attribute names the rules need to seed or observe, read from the code (property getters, comparisons) rather than
    frozen in the rules: a consistent rename of a private attribute changes nothing for the analysis"""
    key = id(idx)
    if key in _NAMES:
        return _NAMES[key]
    n = {}
    n["frozen"] = field(idx, "CsvPath", "is_frozen", "_freeze_path")
    n["advance"] = field(idx, "CsvPath", "advance_count", "_advance")
    n["is_valid"] = field(idx, "CsvPath", "is_valid", "_is_valid")
    n["headers"] = field(idx, "CsvPath", "headers", "_headers")
    n["limit"] = field(idx, "CsvPath", "limit_collection_to", "_limit_collection_to")
    # the per-line snapshot of the match count: the attribute raise_match_count_if compares with match_count
    cmc = "_current_match_count"
    try:
        f = idx.method("CsvPath", "raise_match_count_if")
        for c in walk_no_nested(f.node):
            if isinstance(c, ast.Compare):
                ats = [x.attr for x in [c.left] + c.comparators if isinstance(x, ast.Attribute) and isinstance(x.value, ast.Name) and x.value.id == "self"]
                if "match_count" in ats and len(ats) == 2:
                    cmc = [a for a in ats if a != "match_count"][0]
    except AnalysisError:
        pass
    n["cmc"] = cmc
    _NAMES.clear()
    _NAMES[key] = n
    return n


def seed_aliases(idx, cls, store, selfkey="self"):
    """a model that fixes the value of a property (`self.collect_when_not_matched`) fixes what the property merely hands on:
    when the getter is `return self.<path>` the same value is stored under that path too (and so on along the delegation), so that
    code reading the underlying attribute directly sees the model's value"""
    out = dict(store)
    for k, v in store.items():
        if not k.startswith(selfkey + ".") or k.count(".") != 1:
            continue
        c, key = cls, k
        for _ in range(4):
            attr = key.rsplit(".", 1)[1]
            pr = None
            for ci in idx.mro(c):
                if attr in ci.properties and "get" in ci.properties[attr]:
                    pr = ci.properties[attr]["get"]
                    break
            if pr is None:
                break
            body = [s for s in pr.node.body if not (isinstance(s, ast.Expr) and isinstance(s.value, ast.Constant))]
            if len(body) != 1 or not isinstance(body[0], ast.Return) or body[0].value is None:
                break
            d = dotted(body[0].value)
            if not d or not d.startswith("self.") or d == "self." + attr:
                break
            base = key.rsplit(".", 1)[0]
            key = base + d[4:]
            out.setdefault(key, v)
            # class of the object holding the last attribute
            t = c
            for a in d.split(".")[1:-1]:
                t = idx.attr_type(t, a) if t else None
            if not t:
                break
            c = t
    return out


def opt(idx, cls, name):
    """[FuncInfo] of cls.name when it exists, else [] — for helpers that are listed as analysed but are not themselves an anchor"""
    return [idx.method(cls, name)] if idx.has_cls(cls) and idx.has_method(cls, name) else []


def resolved_text(fi, expr):
    """source text of an attribute chain with its root local replaced by what it stands for (`cp = self.matcher.csvpath; cp.is_valid` reads
    as `self.matcher.csvpath.is_valid`), applied repeatedly along the chain"""
    parts = []
    n = expr
    while isinstance(n, ast.Attribute):
        parts.append(n.attr)
        n = n.value
    if isinstance(n, ast.Name):
        r = resolve_local(fi, n)
        if r is not n and not (isinstance(r, ast.Name) and r.id == n.id):
            return ".".join([resolved_text(fi, r)] + list(reversed(parts)))
    return unparse(expr)


def lark_ctor(idx, cls):
    """(grammar text, Lark keyword options) with which cls.__init__ builds its parser — interpreted, so the construction may live in a
    helper or behind a memo; the grammar must be a string known from the source"""
    from sa.absint import Interp, Obj
    ci = idx.cls(cls)
    init = ci.methods.get("__init__")
    if init is None:
        raise AnalysisError(f"{cls}.__init__ not found")
    built = []

    def h(i, c, r, a, k):
        built.append((list(a), dict(k)))
        return Obj("LARK")

    it = Interp(idx, types={"self": cls}, unknown_calls="residual", handlers={"Lark": h, "lark.Lark": h})
    ps = it.run_all(init, args={})
    texts = [b for b in built if b[0] and isinstance(b[0][0], str)]
    if len(ps) != 1 or ps[0].result[0] != "return" or len(texts) != 1 or any(not isinstance(v, (str, bool, int, type(None))) for v in texts[0][1].values()):
        raise AnalysisError(f"{cls}.__init__ does not build one Lark parser from a grammar text known from the source ({len(ps)} paths, {len(built)} constructions)")
    return texts[0][0][0], texts[0][1]
