"""Run protocol of the named-paths run methods: expected event sequences for the tables of runs_model."""
from sa.absint import Obj, Residual
from . import runs_model as RM

SERIAL_EVENTS = ("clean", "clear_run_coordination", "run_time_str", "start_run", "csvpath()", "Result()", "_load_csvpath",
                 "add_named_result", "run", "ErrorHandler()", "handle_error", "save", "complete_run")


def serial_expected(p, members=2):
    """expected protocol events for the choices of path p; returns (events, outcome)"""
    ch = dict(p.choices)
    ev = ["clean", "clear_run_coordination", "run_time_str", "start_run"]
    handled = [v for t, v in p.choices if t == "handler re-raises"]
    hi = 0
    for i in range(members):
        ev += ["csvpath()", "Result()", "_load_csvpath"]
        failed = False
        if ch.get(f"load(cp{i}) raises"):
            failed = True
        else:
            ev += ["add_named_result", "run"]
            if ch.get(f"run(cp{i}) raises"):
                failed = True
        if failed:
            ev += ["ErrorHandler()", "handle_error"]
            rer = handled[hi] if hi < len(handled) else False
            hi += 1
            if rer:
                ev += ["save"]
                return ev, "raise"
        ev += ["save"]
    ev += ["complete_run", "clear_run_coordination"]
    return ev, "return"


def serial_judge(method, p, members=2):
    out = []
    got = [e for e in RM.events(p) if e[0] in SERIAL_EVENTS]
    names = [e[0] for e in got]
    want, outcome = serial_expected(p, members)
    cfg = [(t, v) for t, v in p.choices if "raises" in t]
    out.append(("protocol", names == want,
                f"{method} with {cfg}: event order {names}; run protocol {want} "
                "(clean → reset run coordination → name the run → start_run → per member: new csvpath, Result, load, add result, run, [on error: handler, save before re-raise], save → complete_run → reset)"))
    out.append(("outcome", p.result[0] == outcome, f"{method} with {cfg}: ends in {p.result}, expected {outcome}"))
    if names != want:
        return out
    # argument wiring
    cps = [e[1] for e in got if e[0] == "csvpath()"]
    res = [e[1] for e in got if e[0] == "Result()"]
    loads = [e[1] for e in got if e[0] == "_load_csvpath"]
    adds = [e[1] for e in got if e[0] == "add_named_result"]
    saves = [e[1] for e in got if e[0] == "save"]
    ehs = [e[1] for e in got if e[0] == "ErrorHandler()"]
    for i, kw in enumerate(res):
        okr = (kw.get("csvpath") == Obj(f"cp{i}") and kw.get("run_index") == i and kw.get("run_dir") == "RUNDIR"
               and kw.get("paths_name") == "P" and kw.get("file_name") == "F" and kw.get("run_time") == Residual("RUNTIME"))
        out.append(("result-wiring", okr, f"{method}: Result #{i} built with {kw}; expected the member's own fresh csvpath cp{i}, run_index {i}, the run's directory and time"))
    for i, kw in enumerate(loads):
        okl = kw.get("csvpath") == Obj(f"cp{i}") and kw.get("path") == f"p{i}" and kw.get("file") == "file.csv" and kw.get("pathsname") == "P" and kw.get("filename") == "F"
        out.append(("load-wiring", okl, f"{method}: _load_csvpath #{i} called with {kw}"))
    out.append(("add-wiring", all(isinstance(a, Obj) and a.name.startswith("res") for a in adds) and len(set(a.name for a in adds)) == len(adds),
                f"{method}: add_named_result receives {adds}"))
    # each started member saved exactly once, its own result
    started = len(res)
    out.append(("save-once", [s.name if isinstance(s, Obj) else s for s in saves] == [f"res{i}" for i in range(started)],
                f"{method} with {cfg}: saves {saves}; every started member must be saved exactly once (its own result), also when the run aborts"))
    for kw in ehs:
        okh = isinstance(kw.get("csvpath"), Obj) and isinstance(kw.get("error_collector"), Obj) and kw["csvpath"].name[2:] == kw["error_collector"].name[3:] and kw.get("csvpaths") == Residual("self")
        out.append(("handler-wiring", okh, f"{method}: ErrorHandler built with {kw}; expected the failing member's csvpath and its result as collector"))
    cr = [e[1] for e in got if e[0] == "complete_run"]
    if cr:
        kw = cr[0]
        okc = kw.get("run_dir") == "RUNDIR" and kw.get("pathsname") == "P" and [getattr(r, "name", r) for r in kw.get("results", [])] == [f"res{i}" for i in range(members)]
        out.append(("complete-wiring", okc, f"{method}: complete_run called with {kw}"))
    sr = [e[1] for e in got if e[0] == "start_run"]
    out.append(("start-wiring", len(sr) == 1 and sr[0].get("run_dir") == "RUNDIR" and sr[0].get("pathsname") == "P" and sr[0].get("filename") == "F", f"{method}: start_run called with {sr}"))
    return out


# ---------------------------------------------------------------------------------------------- breadth first
def byline_expected(scenario, agree, p, nlines, members=2):
    """simulate the documented breadth-first schedule for the choices of p"""
    ch = dict(p.choices)
    rer = [v for t, v in p.choices if t == "handler re-raises"]
    ev = []
    yields = []
    stopped = set()
    outcome = "return"
    for li in range(nlines):
        L = f"L{li}"
        keep = agree
        skip_all = False
        aborted = False
        voters = 0
        for m in range(members):
            cp = f"cp{m}"
            if scenario == "norun" and m == 1:
                continue   # run-mode: no-run — the member sits the run out, as it does in a serial run
            if cp in stopped:
                # a member that has stopped does not match the lines after it: under if_all_agree they are not in the intersection
                if agree:
                    keep = False
                continue
            if skip_all:
                ev.append(("track_line", (cp, L)))
                continue
            voters += 1
            ev.append(("track_line", (cp, L)))
            ev.append(("_consider_line", (cp, L)))
            if scenario == "abort":
                if ch.get(f"consider({cp},{L}) raises"):
                    ev.append(("handle_error", None))
                    if rer and rer.pop(0):
                        for j in range(members):
                            ev.append(("save", f"res{j}"))
                        return ev, yields, "raise"
                    # handled under a policy that does not raise: the error is that member's — it has no say about this line, and the
                    # members after it see the line as they would alone
                    voters -= 1
                    continue
                matched = True
            else:
                matched = True if scenario in ("stops_a", "stops_b") else ch.get(f"matched({cp},{L})")
            if ch.get(f"stops({cp},{L})"):
                stopped.add(cp)
            if ch.get(f"skip_all({L})") and m == 0:
                skip_all = True
            keep = (keep and matched) if agree else (keep or matched)
        if keep and voters:
            yields.append(L)
        if len(stopped) == members - (1 if scenario == "norun" else 0) and scenario == "norun":
            pass   # the run may read on to the end of the file: nobody is left to see the lines
        if len(stopped) == members:
            break
    for j in range(members):
        ev.append(("save", f"res{j}"))
    ev.append(("complete_run", None))
    return ev, yields, outcome


def byline_judge(scenario, agree, p, nlines):
    out = []
    got = []
    for kk, v in RM.events(p):
        if kk in ("track_line", "_consider_line"):
            got.append((kk, v))
        elif kk == "save":
            got.append((kk, getattr(v, "name", v)))
        elif kk == "handle_error":
            got.append((kk, None))
        elif kk == "complete_run":
            got.append((kk, None))
    ys = [v.text if isinstance(v, Residual) else v for k, kk, v in p.trace if k == "yield"]
    want, wy, outcome = byline_expected(scenario, agree, p, nlines, members=p.__dict__.get("members", 2))
    cfg = [(t, v) for t, v in p.choices if not t.startswith("self.")]
    mode = "if_all_agree" if agree else "union"
    if scenario == "abort" and not (p.choices and p.choices[-1] == ("handler re-raises", True)) and any(v for t, v in p.choices if t.endswith("raises")):
        # handled (not re-raised) error: only require that nothing escapes and the run is completed
        out.append(("handled-error", p.result[0] == "return" and ("complete_run", None) in got, f"next_by_line with {cfg}: {p.result}, events {got[-4:]}"))
    out.append(("schedule", got == want,
                f"next_by_line ({mode}) with {cfg}: events {got}; documented schedule {want} (per line every un-stopped member gets exactly one track_line and, unless skipped by skip_all, one consideration; "
                "the run ends when every member has stopped; on abort every member is saved before the exception is re-raised; complete_run only on a normal end)"))
    out.append(("yields", ys == wy, f"next_by_line ({mode}) with {cfg}: yields {ys}, documented {wy} ({'intersection' if agree else 'union'} of the members' decisions per line)"))
    out.append(("outcome", p.result[0] == outcome, f"next_by_line with {cfg}: ends in {p.result}, expected {outcome}"))
    # each member's result receives exactly the lines that member matched, and only when the caller asked to collect
    collect = p.__dict__.get("collect", False)
    ch = dict(p.choices)
    considered = [v for kk, v in RM.events(p) if kk == "_consider_line"]
    wc = [(m, f"limited[{m}]({ln})") for m, ln in considered if collect and ch.get(f"matched({m},{ln})", scenario in ("stops_a", "stops_b", "abort"))]
    gc = [v for k, kk, v in p.trace if k == "call" and kk == "collected"]
    if scenario != "abort":
        out.append(("collected", gc == wc, f"next_by_line(collect={collect}, {mode}) with {cfg}: lines appended to the members' results {gc}, documented {wc} "
                    "(a member's result holds the lines that member matched, each through that member's own collect() projection, and none when the caller does not collect)"))
    return out
