"""A model file system plus stdlib stubs, for interpreting the named-files / named-paths managers at AST level
over bounded operation sequences (C11, C12).

Files are inodes (content strings or JSON-like python objects); os.link shares an inode, shutil.copy makes a new one.
Only the checker's model is executed: the managers' code is walked by sa.absint with os/shutil/open/json/hashlib
calls routed here.
"""
import copy
import hashlib
import json

from sa.absint import Interp, Obj, Residual, Raised


class MFS:
    def __init__(self):
        self.inodes = {}
        self.files = {}  # path -> inode id
        self.dirs = {"."}
        self._n = 0

    # ---- helpers
    def clone(self):
        return copy.deepcopy(self)

    def new_inode(self, content):
        self._n += 1
        self.inodes[self._n] = content
        return self._n

    def put(self, path, content):
        if path in self.files:
            self.inodes[self.files[path]] = content
        else:
            self.files[path] = self.new_inode(content)
        self._mk_parents(path)

    def get(self, path):
        return self.inodes[self.files[path]]

    def _mk_parents(self, path):
        parts = path.split("/")[:-1]
        for i in range(1, len(parts) + 1):
            self.dirs.add("/".join(parts[:i]))

    def exists(self, path):
        path = path.rstrip("/")
        return path in self.files or path in self.dirs

    def listdir(self, path):
        pre = path.rstrip("/") + "/"
        names = set()
        for p in list(self.files) + list(self.dirs):
            if p.startswith(pre):
                names.add(p[len(pre):].split("/")[0])
        return sorted(names)

    def rmtree(self, path):
        pre = path.rstrip("/") + "/"
        for p in [p for p in self.files if p.startswith(pre) or p == path]:
            del self.files[p]
        for d in [d for d in self.dirs if d.startswith(pre) or d == path]:
            self.dirs.discard(d)

    @staticmethod
    def sha(content):
        if not isinstance(content, (str, bytes)):
            content = json.dumps(content, sort_keys=True, default=str)
        if isinstance(content, str):
            content = content.encode("utf-8")
        return hashlib.sha256(content).hexdigest()


class MFile:
    """an open file of the model"""

    def __init__(self, fs, path, mode):
        self.fs = fs
        self.path = path
        self.mode = mode
        if "w" in mode:
            fs.put(path, "")
        elif "a" in mode and path not in fs.files:
            fs.put(path, "")

    def read(self):
        c = self.fs.get(self.path)
        return c if isinstance(c, (str, bytes)) else json.dumps(c)

    def write(self, s):
        cur = self.fs.get(self.path)
        if "a" in self.mode or (isinstance(cur, str) and cur != "" and "w" in self.mode):
            self.fs.put(self.path, (cur if isinstance(cur, str) else "") + s)
        else:
            self.fs.put(self.path, s)

    def close(self):
        pass

    def __deepcopy__(self, memo):
        return self


class Digest:
    def __init__(self, h):
        self.h = h

    def hexdigest(self):
        return self.h

    def __deepcopy__(self, memo):
        return self


def handlers(fs):
    """stdlib stubs bound to the model file system `fs` (a one-element list so the program can swap it)"""

    def F():
        return fs[0]

    def s(x):
        if isinstance(x, Residual):
            raise Raised("ModelError:" + x.text)
        return x

    def h_open(i, c, r, a, k):
        path = s(a[0])
        mode = a[1] if len(a) > 1 else k.get("mode", "r")
        if ("r" in mode or mode == "rb") and "w" not in mode and "a" not in mode and path not in F().files:
            raise Raised("FileNotFoundError")
        return MFile(F(), path, mode)

    def h_json_load(i, c, r, a, k):
        cont = F().get(a[0].path)
        if isinstance(cont, str):
            try:
                return json.loads(cont)
            except ValueError:
                raise Raised("JSONDecodeError")
        return copy.deepcopy(cont)

    def h_json_dump(i, c, r, a, k):
        def conv(o):
            if isinstance(o, Residual):
                return f"<{o.text}>"
            if isinstance(o, Obj):
                return f"<{o.name}>"
            if isinstance(o, dict):
                return {conv(kk): conv(v) for kk, v in o.items()}
            if isinstance(o, (list, tuple)):
                return [conv(x) for x in o]
            return o
        F().put(a[1].path, conv(a[0]))

    def h_copy(i, c, r, a, k):
        src, dst = s(a[0]), s(a[1])
        if src not in F().files:
            raise Raised("FileNotFoundError")
        if dst in F().dirs:
            dst = dst + "/" + src.split("/")[-1]
        F().files[dst] = F().new_inode(copy.deepcopy(F().get(src)))
        F()._mk_parents(dst)
        return dst

    def h_link(i, c, r, a, k):
        src, dst = s(a[0]), s(a[1])
        if src not in F().files:
            raise Raised("FileNotFoundError")
        F().files[dst] = F().files[src]
        F()._mk_parents(dst)

    def h_rename(i, c, r, a, k):
        src, dst = s(a[0]), s(a[1])
        if src not in F().files:
            raise Raised("FileNotFoundError")
        F().files[dst] = F().files.pop(src)
        F()._mk_parents(dst)

    def h_remove(i, c, r, a, k):
        p = s(a[0])
        if p not in F().files:
            raise Raised("FileNotFoundError")
        del F().files[p]

    def h_makedirs(i, c, r, a, k):
        p = s(a[0]).rstrip("/")
        F().dirs.add(p)
        F()._mk_parents(p + "/x")

    def h_digest(i, c, r, a, k):
        return Digest(MFS.sha(F().get(a[0].path)))

    def h_sha256(i, c, r, a, k):
        d = a[0] if a else b""
        return Digest(hashlib.sha256(d if isinstance(d, bytes) else str(d).encode("utf-8")).hexdigest())

    return {
        "open": h_open, "json.load": h_json_load, "json.dump": h_json_dump,
        "shutil.copy": h_copy, "shutil.copyfile": h_copy, "shutil.copy2": h_copy, "os.link": h_link, "os.rename": h_rename, "os.replace": h_rename,
        "shutil.move": h_rename, "os.remove": h_remove, "os.unlink": h_remove, "os.makedirs": h_makedirs, "os.mkdir": h_makedirs,
        "shutil.rmtree": lambda i, c, r, a, k: F().rmtree(s(a[0])),
        "os.path.exists": lambda i, c, r, a, k: F().exists(s(a[0])), "os.path.isfile": lambda i, c, r, a, k: s(a[0]) in F().files,
        "os.path.isdir": lambda i, c, r, a, k: s(a[0]).rstrip("/") in F().dirs, "os.listdir": lambda i, c, r, a, k: F().listdir(s(a[0])),
        "os.path.join": lambda i, c, r, a, k: "/".join(str(s(x)).rstrip("/") if n < len(a) - 1 else str(s(x)) for n, x in enumerate(a)),
        "os.path.basename": lambda i, c, r, a, k: s(a[0]).rpartition("/")[2], "os.path.dirname": lambda i, c, r, a, k: s(a[0]).rpartition("/")[0],
        "os.path.split": lambda i, c, r, a, k: (s(a[0]).rpartition("/")[0], s(a[0]).rpartition("/")[2]),
        "hashlib.file_digest": h_digest, "hashlib.sha256": h_sha256,
    }
