"""alias table of FunctionFactory.get_function: which names construct which class (E4 input)"""
import ast

from sa.index import AnalysisError, unparse

_cache = {}


def factory_table(idx):
    """[(name, class)] in first-match order; raises AnalysisError on an unrecognised idiom"""
    k = id(idx)
    if k in _cache:
        return _cache[k]
    fi = idx.method("FunctionFactory", "get_function")
    chain = None
    for st in fi.node.body:
        if isinstance(st, ast.If) and _name_test(st.test) is not None:
            chain = st
            break
    if chain is None:
        raise AnalysisError("FunctionFactory.get_function: the name dispatch chain was not found (idiom changed)")
    table = []
    seen = set()
    cur = chain
    while True:
        names = _name_test(cur.test)
        if names is None:
            raise AnalysisError(f"FunctionFactory.get_function: unrecognised dispatch test {unparse(cur.test)}")
        cls = None
        for st in cur.body:
            if isinstance(st, ast.Assign) and isinstance(st.value, ast.Call) and isinstance(st.value.func, ast.Name):
                cls = st.value.func.id
        if cls is None:
            raise AnalysisError(f"FunctionFactory.get_function: branch for {names} constructs nothing")
        for n in names:
            if n not in seen:
                seen.add(n)
                table.append((n, cls))
        if len(cur.orelse) == 1 and isinstance(cur.orelse[0], ast.If) and _name_test(cur.orelse[0].test) is not None:
            cur = cur.orelse[0]
        else:
            break
    if len(table) < 150:
        raise AnalysisError(f"FunctionFactory.get_function: only {len(table)} names recognised (expected > 150)")
    _cache[k] = table
    return table


def _name_test(t):
    if isinstance(t, ast.Compare) and len(t.ops) == 1 and isinstance(t.left, ast.Name) and t.left.id == "name":
        c = t.comparators[0]
        if isinstance(t.ops[0], ast.Eq) and isinstance(c, ast.Constant) and isinstance(c.value, str):
            return [c.value]
        if isinstance(t.ops[0], ast.In) and isinstance(c, (ast.List, ast.Tuple, ast.Set)):
            vals = []
            for e in c.elts:
                if not (isinstance(e, ast.Constant) and isinstance(e.value, str)):
                    return None
                vals.append(e.value)
            return vals
    return None


def factory_aliases(idx):
    """class -> set of names"""
    out = {}
    for n, c in factory_table(idx):
        out.setdefault(c, set()).add(n)
    return out


def aliases_of(idx, cls):
    """names the factory gives to cls or any subclass... only exact class"""
    a = factory_aliases(idx).get(cls)
    if not a:
        raise AnalysisError(f"no factory alias constructs {cls}")
    return sorted(a)
