"""C03 — variables and run counters end up with the values the csvpath assigns.

  R1 stack functions        push / push_distinct / pop / peek / peek_size / stack interpreted through the real
                            Matcher/CsvPath get_variable / set_variable code on concrete stacks
  R2 counter writers        who may write scan_count / match_count / _current_match_count, and with what
  R3 match count            raise_match_count_if table; its callers
  R4 counter functions      count_lines, line_number, count_scans, total_lines, count() read the right source
  R5 variable store         set_variable / get_variable decision tables on concrete dictionaries (tracking keys,
                            set_if_none, frozen path), and who may touch CsvPath.variables
  R6 one track_line per line  CsvPath._next_line table; LineMonitor.next_line counter table
  R7 variable reads         Variable.to_value / matches tables (tracking key decoding incl. True/False)
  R8 assignment             = C14.R1 restricted to the write column (shared table)
"""
import ast
import itertools

from sa.index import AnalysisError, unparse, walk_no_nested, call_name, stores_in
from sa.absint import Interp, Obj, Residual
from . import common as K
from . import funcs_model as FM

CP = "self.matcher.csvpath"
VARS = f"{CP}.variables"
VAR_TYPES = {"self": None, "self.matcher": "Matcher", CP: "CsvPath"}
VAR_INLINE = {"Matcher.get_variable", "Matcher.set_variable", "CsvPath.get_variable", "CsvPath.set_variable"}


def run(idx, rep, tier):
    rep.explanation = (
        "Stack functions, Variable reads and CsvPath.set_variable/get_variable are interpreted at AST level on concrete variable "
        "dictionaries (the functions are inlined through Matcher into CsvPath, so the real tracking/set_if_none/freeze logic is what is "
        "tabulated) and compared with the documented results; who-may-write inventory of the run counters with the value written; decision "
        "table of raise_match_count_if and its callers; provenance of the counting functions; one track_line per reader line; "
        "LineMonitor.next_line counter table over all blank/non-blank sequences of length <= 3. Aggregates such as tally/sum/subtotal are "
        "not decided.")
    rep.rule("R1", "stack functions change the stack by exactly one element / read the right element")
    rep.rule("R2", "run counters are written only by their owners, with +1 / copy semantics")
    rep.rule("R3", "the match count is raised once per matching line")
    rep.rule("R4", "counting functions read the documented source")
    rep.rule("R5", "set_variable/get_variable tables; only they write CsvPath.variables; frozen path blocks writes")
    rep.rule("R6", "one track_line per reader line; LineMonitor counters")
    rep.rule("R7", "Variable.to_value/matches tables")
    rep.rule("R8", "assignment write column (docs/assignment.md)")
    rep.rule("R9", "aggregates over a sequence of lines: every, tally, sum, counter hold the documented bookkeeping")
    r1(idx, rep)
    r2(idx, rep)
    r3(idx, rep)
    early_raise(idx, rep, "R3")
    r4(idx, rep)
    r5(idx, rep)
    r6(idx, rep)
    r7(idx, rep)
    r8(idx, rep)
    r9(idx, rep)
    durable_ids(idx, rep, "R4")
    # what a component assigns on this line is computed from this line: between lines every component is reset, whatever it answered before
    from . import c06 as _c06
    _c06.reset_table(idx, rep, "R8")
    _c06.reset_clears(idx, rep, "R8")
    # the values are compared at every line through print references: $.variables.name.key reads the key the csvpath wrote (C16.R6's table)
    from . import c16 as _c16
    _c16.r6(idx, K.as_rule(rep, "R7", keep=lambda k: "_ref_from_dict" in k))
    # group members count what a standalone path counts: CsvPaths.csvpath() hands its settings (skip_blank_lines, dialect) to every member
    from . import c08 as _c08
    _c08.r2(idx, K.as_rule(rep, "R6", keep=lambda k: "builds a new member" in k))
    # a path that is not ending must not be left frozen by a last()/fail() consequence: set_variable is a no-op on a frozen path (R5),
    # so every later assignment of that line would silently keep its old value
    from . import c13
    c13.frozen_checks(idx, rep, "R5")
    rep.stats["exhaustive"] = True


def _var_interp(idx, cls, extra_handlers=None, extra_domains=None, frozen=False, variables=None, children=None, store=None):
    """an interpreter in which self.matcher.get/set_variable run the real Matcher/CsvPath code on a concrete dict"""
    C = FM.Child
    types = {"self": cls, "self.matcher": "Matcher", CP: "CsvPath", FM.EU: FM.EU}
    objs = {}
    st = {VARS: variables if variables is not None else {}, f"{CP}.{K.names(idx)['frozen']}": frozen}
    if store:
        st.update(store)

    def reg(c):
        objs[c.name] = c
        if c.left is not None:
            st[f"{c.name}.left"] = reg(c.left)
        if c.right is not None:
            st[f"{c.name}.right"] = reg(c.right)
        return Obj(c.name)

    st["self.children"] = [reg(c) for c in (children or [])]

    def h_value(interp, call, recv, a, kw):
        return objs[recv.name].value

    def h_matches(interp, call, recv, a, kw):
        return objs[recv.name].vote

    handlers = {".to_value": h_value, ".matches": h_matches, "math.isnan": FM._isnan}
    handlers.update(extra_handlers or {})
    dom = {"self.default_match()": [True]}
    dom.update(extra_domains or {})
    it = Interp(idx, types=types, inline=VAR_INLINE | FM.EU_INLINE, handlers=handlers, domains=dom, unknown_calls="residual")
    return it, st


def r1(idx, rep):
    C = FM.Child
    # ---- pop
    fi = idx.method("Pop", "_produce_value")
    rep.analysed(fi, idx.method("CsvPath", "get_variable"), idx.method("CsvPath", "set_variable"))
    bad = None
    for stack in ([], [1], [1, 2], [1, 2, 3], ["a", "b", "c", "d"]):
        it, st = _var_interp(idx, "Pop", variables={"s": list(stack)}, children=[C("c0", value="s")])
        ps = it.run_all(fi, args={"skip": []}, store=st)
        if len(ps) != 1:
            raise AnalysisError(f"Pop._produce_value not deterministic on a concrete stack ({len(ps)} paths)")
        after = ps[0].final_store[VARS].get("s")
        got = FM.final(ps[0], "self.value")
        if stack:
            if got != stack[-1] or list(after) != stack[:-1]:
                bad = bad or f"pop() on {stack}: returns {got!r} and leaves {after}; documented: returns {stack[-1]!r} and leaves {stack[:-1]} (exactly one element removed)"
        else:
            if got != "<unset>" or list(after or []) != []:
                bad = bad or f"pop() on an empty stack: value {got!r}, stack {after}"
    rep.check(bad is None, "R1", f"{fi.file}::Pop table", bad or "", K.where(fi, fi.node))
    # ---- push / push_distinct
    fp = idx.method("Push", "_decide_match")
    rep.analysed(fp)
    bad = None
    for name in ("push", "push_distinct"):
        for stack, v, notnone in itertools.product(([], [1], [1, 2]), (1, 3, None, ""), (False, True)):
            it, st = _var_interp(idx, "Push", variables={"s": list(stack)} if stack else {},
                                 children=[C("eq", left=C("l", value="s"), right=C("r", value=v))],
                                 extra_domains={"self.notnone": [notnone]},
                                 extra_handlers={"self.has_qualifier": lambda i, c, r, a, k: False},
                                 store={"self.name": name})
            ps = it.run_all(fp, args={"skip": []}, store=st)
            if len(ps) != 1:
                raise AnalysisError(f"Push._decide_match not deterministic ({len(ps)} paths: {ps[0].summary()['choices']})")
            after = ps[0].final_store[VARS].get("s")
            want = list(stack)
            empty = v is None or v == ""
            if name == "push_distinct" and v in stack:
                pass
            elif notnone and empty:
                pass
            else:
                want.append(v)
            if list(after or []) != want:
                bad = bad or f"{name}('s', {v!r}) on {stack} (notnone={notnone}): stack becomes {after}, documented {want}"
    rep.check(bad is None, "R1", f"{fp.file}::Push table", bad or "", K.where(fp, fp.node))
    # ---- the same push_distinct component over several lines while other components (pop, another push, an assignment) change the stack
    # between its turns: what it pushes is decided by what the stack holds at that moment
    HIST = [("push", "a"), ("push", "b"), ("other", ["a"]), ("push", "b"), ("other", ["c"]), ("push", "a"), ("push", "c"), ("other", ["c", "a", "d"]),
            ("push", "d"), ("push", "e")]
    for name, qual in (("push_distinct", False), ("push", True)):
        r = C("r", value=None)
        it, st = _var_interp(idx, "Push", variables={}, children=[C("eq", left=C("l", value="s"), right=r)],
                             extra_domains={"self.notnone": [False]}, extra_handlers={"self.has_qualifier": lambda i, c, rv, a, k, q=qual: q and a[0] == "distinct"},
                             store={"self.name": name})
        log = []

        def program(i):
            want = []
            for step, (op, v) in enumerate(HIST):
                if op == "other":
                    i.store[VARS]["s"] = list(v)
                    want = list(v)
                    continue
                r.value = v
                i.call_function(fp, {"skip": []}, "self")
                if v not in want:
                    want.append(v)
                got = list(i.store[VARS].get("s") or [])
                if got != want:
                    log.append(f"step {step}: {name}{'.distinct' if qual else ''}('s', {v!r}) after the history {HIST[:step]}: the stack holds {got}, documented {want} "
                               "(a distinct push leaves out exactly the values that are on the stack when it runs)")
                    return
        ps = it.run_program(program, st)
        if len(ps) != 1:
            raise AnalysisError(f"Push._decide_match not deterministic over a history ({len(ps)} paths: {ps[0].summary()['choices']})")
        if ps[0].result[0] == "raise":
            log.append(f"{name} over the history {HIST}: raises {ps[0].result[1]}")
        rep.check(not log, "R1", f"{fp.file}::Push distinct over a history ({name}{'.distinct' if qual else ''})", log[0] if log else "", K.where(fp, fp.node))
    # ---- peek / peek_size
    fk = idx.method("Peek", "_produce_value")
    fs = idx.method("PeekSize", "_produce_value")
    rep.analysed(fk, fs)
    bad = None
    for stack in ([], [5], [5, 6, 7]):
        for i in (0, 1, 2, 3):
            it, st = _var_interp(idx, "Peek", variables={"s": list(stack)}, children=[C("eq", left=C("l", value="s"), right=C("r", value=i))])
            ps = it.run_all(fk, args={"skip": []}, store=st)
            got = FM.final(ps[0], "self.value")
            want = stack[i] if i < len(stack) else "<unset>"
            if len(ps) != 1 or got != want or list(ps[0].final_store[VARS].get("s")) != stack:
                bad = bad or f"peek('s', {i}) on {stack}: {got!r}, documented {want!r} (and the stack unchanged)"
        it, st = _var_interp(idx, "PeekSize", variables={"s": list(stack)}, children=[C("c0", value="s")])
        ps = it.run_all(fs, args={"skip": []}, store=st)
        if len(ps) != 1 or FM.final(ps[0], "self.value") != len(stack):
            bad = bad or f"peek_size('s') on {stack}: {FM.final(ps[0], 'self.value')!r}"
    rep.check(bad is None, "R1", f"{fk.file}::Peek/PeekSize table", bad or "", K.where(fk, fk.node))


def r2(idx, rep):
    owners = {
        "scan_count": {"CsvPath.__init__": "0", "CsvPath._consider_line": "self.scan_count + 1"},
        # (_consider_line may take an early raise back: it restores the count it saved at the start of a line that did not match)
        "match_count": {"CsvPath.__init__": "0", "CsvPath.raise_match_count_if": "+=1", "CsvPath._consider_line": "self." + K.names(idx)["cmc"]},
        K.names(idx)["cmc"]: {"CsvPath.__init__": "0", "CsvPath._consider_line": "self.match_count"},
    }
    for attr, own in owners.items():
        seen = set()
        for s in K.attr_stores(idx, {attr}):
            fi, v, st = s["fi"], s["value"], s["stmt"]
            # only stores on a csvpath (self.X inside CsvPath, or <something>.csvpath.X)
            tgt = unparse(s["target"])
            if fi.cls != "CsvPath" and ".csvpath." not in "." + tgt and not tgt.startswith("csvpath."):
                if fi.cls in ("CsvPath",):
                    pass
                else:
                    # e.g. Error.match_count / metadata fields with the same name: not the run counter
                    if tgt.split(".")[0] in ("error", "mdata", "self") and fi.cls != "CsvPath":
                        continue
            rep.analysed(fi)
            key = f"{fi.file}::{fi.qual} writes {attr}"
            oq = fi.qual if fi.qual in own else K.owner_of(idx, fi, set(own))   # a private helper only its owner calls writes on the owner's behalf
            if oq is None:
                rep.fail("R2", key, f"`{unparse(st)}`: {attr} may only be written by {sorted(own)}", K.where(fi, st))
                continue
            seen.add(oq)
            want = own[oq]
            if isinstance(v, ast.AugAssign):
                got = f"{'+' if isinstance(v.op, ast.Add) else '?'}={unparse(v.value)}"
            else:
                got = unparse(v)
            okv = got == want or (want == "self.scan_count + 1" and got in ("self.scan_count + 1", "+=1", "1 + self.scan_count"))
            rep.check(okv, "R2", key, f"stores `{got}`, documented `{want}`", K.where(fi, st))
        for q in own:
            if q not in seen and not (attr == "match_count" and q == "CsvPath._consider_line"):
                rep.fail("R2", f"{q} writes {attr} (missing)", f"{q} no longer writes {attr}", q)
    rep.floor("R2", 6, "counter stores")


def early_raise(idx, rep, rid):
    """match_count is the number of lines that matched.  An onmatch component may raise it *during* matching (the look-ahead found the
    rest of the line matching); when the line then does not match after all (that component itself voted no), the line must not stay
    counted.  CsvPath._consider_line is interpreted with a matcher that raises the count early and then votes."""
    fi = idx.method("CsvPath", "_consider_line")
    rep.analysed(fi)
    cmc = "self." + K.names(idx)["cmc"]
    bad = None
    for vote in (True, False, None):
        for early in (True, False):
            def h_matches(i, c, r, a, k, vote=vote, early=early):
                if early:
                    i.store["self.match_count"] = i.store["self.match_count"] + 1   # what raise_match_count_if does for the look-ahead
                return vote

            def h_raise(i, c, r, a, k):
                if i.store[cmc] == i.store["self.match_count"]:
                    i.store["self.match_count"] = i.store["self.match_count"] + 1

            it = Interp(idx, types={"self": "CsvPath"}, inline_all={"CsvPath"},
                        handlers={"self.matches": h_matches, "self.stop": lambda i, c, r, a, k: None, "self.raise_match_count_if": h_raise,
                                  "self.line_monitor.is_last_line_and_blank": lambda i, c, r, a, k: False, "self.scanner.includes": lambda i, c, r, a, k: True,
                                  "self.scanner.is_last": lambda i, c, r, a, k: False})
            store = K.seed_aliases(idx, "CsvPath", {"self.advance_count": 0, "self.scan_count": 5, "self.match_count": 3, cmc: 0, "self.skip_blank_lines": True,
                                                    "self.collect_when_not_matched": False})
            ps = it.run_all(fi, args={"line": ["x", "y"]}, store=store)
            want = 4 if vote is True else 3
            got = [p.final_store.get("self.match_count") for p in ps]
            if len(ps) != 1 or got != [want]:
                bad = bad or (f"the line's verdict is {vote!r}, the count was {'raised early by an onmatch look-ahead' if early else 'not raised during matching'}: match_count goes 3 → {got}, "
                              f"documented {want} (a line that did not match is not counted)")
    rep.check(bad is None, rid, f"{fi.file}::CsvPath._consider_line counts matching lines only", bad or "6 rows", K.where(fi, fi.node))


def r3(idx, rep):
    fi = idx.method("CsvPath", "raise_match_count_if")
    rep.analysed(fi)
    bad = None
    for cur, mc in ((3, 3), (3, 4), (0, 0)):
        it = Interp(idx, types={"self": "CsvPath"})
        ps = it.run_all(fi, store={"self." + K.names(idx)["cmc"]: cur, "self.match_count": mc})
        after = ps[0].final_store["self.match_count"]
        want = mc + 1 if cur == mc else mc
        if len(ps) != 1 or after != want:
            bad = bad or f"_current_match_count={cur}, match_count={mc}: match_count becomes {after}, documented {want} (raised once per line)"
    rep.check(bad is None, "R3", f"{fi.file}::CsvPath.raise_match_count_if table", bad or "", K.where(fi, fi.node))
    callers = K.calls_named(idx, {"raise_match_count_if"})
    allowed = {"CsvPath._consider_line", "Qualified.line_matches"}
    for c in callers:
        f = c["fi"]
        rep.check(K.owner_of(idx, f, allowed) is not None, "R3", f"{f.file}::{f.qual} calls raise_match_count_if", "the match count may only be raised by the line driver and by the onmatch look-ahead", K.where(f, c["call"]))
    rep.floor("R3", 3, "raise_match_count_if sites")
    # the conditions under which they call it are tabulated in C13.R2 (vote is True) and C14.R3 (all expressions matched)
    # the count of line n+1 must not depend on a control flag line n left behind: the matcher table's verdict and skip-consumed aspects
    from . import matcher_model as MM
    fm, rows = MM.run_model(idx, max_components=2, with_memo=False)
    rep.analysed(fm)
    bad = {}
    for row in rows:
        for aspect, ok, detail in MM.judge(row):
            if aspect in ("verdict", "skip-consumed") and not ok:
                bad.setdefault(aspect, detail)
    for aspect in ("verdict", "skip-consumed"):
        rep.check(aspect not in bad, "R3", f"{fm.file}::Matcher.matches table {aspect}", bad.get(aspect, f"{len(rows)} rows"), K.where(fm, fm.node))


def r4(idx, rep):
    table = {
        ("CountLines", "_produce_value"): "self.matcher.csvpath.line_monitor.data_line_count",
        ("LineNumber", "_produce_value"): "self.matcher.csvpath.line_monitor.physical_line_number",
        ("CountScans", "_produce_value"): "self.matcher.csvpath.current_scan_count",
        ("TotalLines", "_produce_value"): "self.matcher.csvpath.line_monitor.data_end_line_count",
    }
    for (cls, meth), want in table.items():
        fi = idx.method(cls, meth)
        rep.analysed(fi)
        it = Interp(idx, types={"self": cls}, unknown_calls="residual")
        ps = it.run_all(fi, args={"skip": []})
        got = FM.final(ps[0], "self.value")
        gt = got.text if isinstance(got, Residual) else got
        rep.check(len(ps) == 1 and gt == want, "R4", f"{fi.file}::{cls} source", f"{cls} reads `{gt}`, documented `{want}`", K.where(fi, fi.node))
    # the CsvPath properties those read
    for prop, want in (("current_scan_count", "self.scan_count"), ("current_match_count", "self.match_count")):
        fi = idx.method("CsvPath", prop)
        rets = [unparse(n.value) for n in ast.walk(fi.node) if isinstance(n, ast.Return)]
        rep.check(rets == [want], "R4", f"{fi.file}::CsvPath.{prop}", f"returns {rets}", K.where(fi, fi.node))
    # bare count() = match_count + 1
    fi = idx.method("Count", "to_value")
    rep.analysed(fi, *K.opt(idx, "Count", "_get_match_count"))
    it = Interp(idx, types={"self": "Count"}, inline={"Count._get_match_count"}, unknown_calls="residual",
                domains={"self._function_or_equality": [None], "self.value": [None], "self.matcher": [Obj("self.matcher")], "self.matcher.csvpath": [Obj("self.matcher.csvpath")]})
    ps = it.run_all(fi, args={"skip": []})
    got = FM.final(ps[0], "self.value")
    gt = got.text if isinstance(got, Residual) else got
    rep.check(len(ps) == 1 and gt == "self.matcher.csvpath.current_match_count + 1", "R4", f"{fi.file}::Count bare source", f"bare count() is `{gt}`, documented current_match_count + 1", K.where(fi, fi.node))
    # counting count(x): increments the tracked bucket by one when not onmatch or the child matches
    fc = idx.method("Count", "_get_contained_value")
    rep.analysed(fc)
    C = FM.Child
    bad = None
    for start, onmatch, vote in itertools.product(({}, {"k": {"t": 2}}), (False, True), (True, False)):
        it, st = _var_interp(idx, "Count", variables=dict((k, dict(v)) for k, v in start.items()),
                             extra_domains={"self.onmatch": [onmatch]},
                             extra_handlers={"self.first_non_term_qualifier": lambda i, c, r, a, k: "k", "self.get_id": lambda i, c, r, a, k: "id"},
                             store={"self._function_or_equality": Obj("foe")})
        it.handlers[".to_value"] = lambda i, c, r, a, k: "t"
        it.handlers[".matches"] = lambda i, c, r, a, k, vote=vote: vote
        ps = it.run_all(fc, args={"skip": []}, store=st)
        if len(ps) != 1:
            raise AnalysisError("Count._get_contained_value not deterministic")
        before = start.get("k", {}).get("t", 0)
        inc = (not onmatch) or vote
        want = before + (1 if inc else 0)
        after = ps[0].final_store[VARS].get("k", {}).get("t")
        ret = ps[0].result[1]
        if ret != want or (inc and after != want):
            bad = bad or f"count(x) bucket starts {before}, onmatch={onmatch}, child vote={vote}: returns {ret!r}, bucket {after!r}; documented {want}"
    rep.check(bad is None, "R4", f"{fc.file}::Count tracked table", bad or "", K.where(fc, fc.node))


def r5(idx, rep):
    fs = idx.method("CsvPath", "set_variable")
    fg = idx.method("CsvPath", "get_variable")
    rep.analysed(fs, fg)
    # ---- set_variable
    bad = None
    n = 0
    for frozen, tracking, start in itertools.product((False, True), (None, "t", 0, False), ({}, {"x": 1}, {"x": {"u": 9}})):
        it = Interp(idx, types={"self": "CsvPath"}, unknown_calls="residual")
        st = {"self.variables": _copy(start), "self." + K.names(idx)["frozen"]: frozen}
        ps = it.run_all(fs, args={"__pos__": ["x"], "value": 7, "tracking": tracking}, store=st)
        n += 1
        if len(ps) != 1:
            raise AnalysisError("set_variable is not deterministic on concrete input")
        after = ps[0].final_store["self.variables"]
        want = _copy(start)
        if not frozen:
            if tracking is not None:
                if "x" not in want or not isinstance(want["x"], dict):
                    if "x" not in want:
                        want["x"] = {}
                if isinstance(want["x"], dict):
                    want["x"][tracking] = 7
                else:
                    want = None  # existing scalar with a tracking write: outside the documented use; skip
            else:
                want["x"] = 7
        if want is not None and ps[0].result[0] == "return" and after != want:
            bad = bad or f"set_variable('x', value=7, tracking={tracking!r}) on {start} frozen={frozen}: variables become {after}, documented {want}"
    rep.check(bad is None, "R5", f"{fs.file}::CsvPath.set_variable table", bad or f"{n} rows", K.where(fs, fs.node))
    for nm in (None, "", "  "):
        it = Interp(idx, types={"self": "CsvPath"}, unknown_calls="residual")
        ps = it.run_all(fs, args={"__pos__": [nm], "value": 1, "tracking": None}, store={"self.variables": {}, "self." + K.names(idx)["frozen"]: False})
        rep.check(len(ps) == 1 and ps[0].result[0] == "raise" and ps[0].final_store["self.variables"] == {}, "R5",
                  f"{fs.file}::CsvPath.set_variable rejects name {nm!r}", f"{ps[0].result}", K.where(fs, fs.node))
    # ---- get_variable
    bad = None
    n = 0
    starts = ({}, {"x": 1}, {"x": 0}, {"x": [1, 2]}, {"x": {"t": 5}}, {"x": {"t": 0}}, {"x": {}})
    for frozen, tracking, sin, start in itertools.product((False, True), (None, "t"), (None, 0, []), starts):
        it = Interp(idx, types={"self": "CsvPath"}, unknown_calls="residual")
        st = {"self.variables": _copy(start), "self." + K.names(idx)["frozen"]: frozen}
        ps = it.run_all(fg, args={"__pos__": ["x"], "tracking": tracking, "set_if_none": _copy(sin)}, store=st)
        n += 1
        if len(ps) != 1:
            raise AnalysisError("get_variable is not deterministic on concrete input")
        if ps[0].result[0] != "return":
            continue
        got = ps[0].result[1]
        after = ps[0].final_store["self.variables"]
        eff = None if frozen else sin
        if tracking is None:
            if "x" in start:
                want = start["x"]
            else:
                want = eff
            if frozen and isinstance(want, list):
                want = tuple(want)
            if got != want or type(got) is not type(want):
                bad = bad or f"get_variable('x', set_if_none={sin!r}) on {start} frozen={frozen}: returns {got!r}, documented {want!r}"
            if frozen and after != start:
                bad = bad or f"get_variable on a frozen path changed the variables: {start} -> {after}"
            if not frozen and "x" not in start and sin is not None and after.get("x") != sin:
                bad = bad or f"get_variable('x', set_if_none={sin!r}) on {start}: the default is not stored ({after})"
        else:
            cur = start.get("x")
            have = cur.get("t") if isinstance(cur, dict) else None
            if isinstance(cur, dict) and have:
                want = have
                if got != want:
                    bad = bad or f"get_variable('x', tracking='t') on {start}: returns {got!r}, documented {want!r}"
            if frozen and isinstance(cur, dict) and "t" in cur and after != start:
                bad = bad or f"get_variable(tracking) on a frozen path changed an existing bucket: {start} -> {after}"
    rep.check(bad is None, "R5", f"{fg.file}::CsvPath.get_variable table", bad or f"{n} rows", K.where(fg, fg.node))
    rep.stats["table_rows"] = rep.stats.get("table_rows", 0) + n
    # ---- who touches CsvPath.variables (subscript stores / deletes / whole replacement)
    allowed = {"CsvPath.__init__", "CsvPath.set_variable", "CsvPath.get_variable"}
    listed = {"ResetHeaders": "documented deleter", "StoreFingerprint": "documented deleter"}
    for fi in idx.all_funcs():
        for n in walk_no_nested(fi.node):
            tgt = None
            if isinstance(n, (ast.Assign, ast.AugAssign, ast.Delete)):
                ts = n.targets if isinstance(n, (ast.Assign, ast.Delete)) else [n.target]
                for t in ts:
                    base = t.value if isinstance(t, ast.Subscript) else t
                    if isinstance(base, ast.Attribute) and base.attr == "variables" and (
                            "csvpath" in unparse(base.value) or (unparse(base.value) == "self" and fi.cls == "CsvPath")):
                        tgt = t
            if tgt is None:
                continue
            okw = K.owner_of(idx, fi, allowed) is not None or fi.cls in listed
            rep.check(okw, "R5", f"{fi.file}::{fi.qual} writes csvpath.variables", f"`{unparse(n)}`: variables may be written only through set_variable/get_variable", K.where(fi, n))
    matcher_forwards(idx, rep, "R5")
    seen = []
    fm, ps = K.sym_result(idx, "Matcher", "set_variable", args={"__pos__": ["n"], "value": 5, "tracking": "t"},
                          handlers={"self.csvpath.set_variable": lambda i, c, r, a, k: seen.append((a, k))})
    rep.check(seen == [(["n"], {"value": 5, "tracking": "t"})], "R5", f"{fm.file}::Matcher.set_variable forwards", f"{seen}", K.where(fm, fm.node))


def matcher_forwards(idx, rep, rid):
    """Matcher.get_variable hands back exactly what CsvPath.get_variable returns — '', 'None', 'nan', 0, False and [] are values, not
    absences — and passes name, tracking and set_if_none through"""
    bad = None
    fm = idx.method("Matcher", "get_variable")
    for v in ("V", "", "None", "nan", 0, False, [], None, {"k": 1}):
        seen = []
        _, ps = K.sym_result(idx, "Matcher", "get_variable", args={"__pos__": ["n"], "tracking": "t", "set_if_none": 0}, types={"ExpressionUtility": "ExpressionUtility"},
                             inline=FM.EU_INLINE, handlers={"self.csvpath.get_variable": lambda i, c, r, a, k, v=v: (seen.append((a, k)), v)[1], "math.isnan": FM._isnan})
        if len(ps) != 1 or ps[0].result[0] != "return" or ps[0].result[1] != v or type(ps[0].result[1]) is not type(v):
            bad = bad or f"the csvpath holds {v!r}: Matcher.get_variable returns {[p.result for p in ps][:2]}"
        elif not seen or seen[0] != (["n"], {"tracking": "t", "set_if_none": 0}):
            bad = bad or f"CsvPath.get_variable is called with {seen}; documented ('n', tracking='t', set_if_none=0)"
    rep.check(bad is None, rid, f"{fm.file}::Matcher.get_variable forwards", bad or "", K.where(fm, fm.node))


def _copy(x):
    import copy
    return copy.deepcopy(x)


def r6(idx, rep):
    fi = idx.method("CsvPath", "_next_line")
    rep.analysed(fi)

    def reader(interp, call, recv, args, kwargs):
        interp.record_call("DataFileReader", (args, kwargs))
        return Obj("reader")

    it = Interp(idx, types={"self": "CsvPath"}, unknown_calls="residual",
                domains={"self.scanner.filename": ["f.csv"]},
                handlers={"DataFileReader": reader, "reader.next": lambda i, c, r, a, k: [Residual("L0"), Residual("L1"), Residual("L2")],
                          "self.track_line": lambda i, c, r, a, k: i.record_call("track_line", k.get("line", a[0] if a else None)),
                          "self.finalize": lambda i, c, r, a, k: i.record_call("finalize")})
    ps = it.run_all(fi)
    seq = [(k, v.text if isinstance(v, Residual) else v) for k, kk, v in ps[0].trace if k == "yield" or (k == "call" and kk == "track_line")]
    want = [(k, f"L{i}") for i in range(3) for k in ("call", "yield")]
    rep.check(len(ps) == 1 and seq == want, "R6", f"{fi.file}::CsvPath._next_line one track_line per line",
              f"per reader line the driver must call track_line(line) once and then yield it; observed {seq}", K.where(fi, fi.node))
    # track_line forwards the line to the monitor exactly once
    ft = idx.method("CsvPath", "track_line")
    rep.analysed(ft)
    it = Interp(idx, types={"self": "CsvPath"}, unknown_calls="residual",
                domains={"self.matcher": [None, Obj("M")], "self.line_monitor.physical_line_number": [0, 1]},
                handlers={"self.line_monitor.next_line": lambda i, c, r, a, k: i.record_call("next_line", k)})
    bad = None
    for p in it.run_all(ft, args={"line": Residual("L")}):
        calls = p.calls("next_line")
        if len(calls) != 1 or calls[0][1].get("data") != Residual("L"):
            bad = f"track_line calls line_monitor.next_line {len(calls)}x with {calls}"
    rep.check(bad is None, "R6", f"{ft.file}::CsvPath.track_line forwards to the monitor once", bad or "", K.where(ft, ft.node))
    # LineMonitor.next_line counters over all sequences of blank / non-blank lines
    fn = idx.method("LineMonitor", "next_line")
    rep.analysed(fn)
    bad = None
    rows = 0
    for k in (1, 2, 3, 4):
        for seq in itertools.product([[], ["a"]], repeat=k):
            def program(it, seq=seq):
                for d in seq:
                    it.call_function(fn, {"last_line": None, "data": d}, "self")
            it = Interp(idx, types={"self": "LineMonitor"}, handlers={"LastLineStats": lambda i, c, r, a, kw: Obj("stats")})
            init = {f"self.{a}": None for a in ("_physical_line_count", "_physical_line_number", "_data_line_count", "_data_line_number")}
            ps = it.run_program(program, init)
            rows += 1
            st = ps[0].final_store
            nonblank = sum(1 for d in seq if d)
            want_pln, want_plc = k - 1, k
            if st["self._physical_line_number"] != want_pln or st["self._physical_line_count"] != want_plc:
                bad = bad or f"after {k} lines: physical_line_number={st['self._physical_line_number']} count={st['self._physical_line_count']}, documented {want_pln}/{want_plc}"
            dl = st["self._data_line_count"]
            if nonblank and dl != nonblank:
                bad = bad or f"lines {['blank' if not d else 'data' for d in seq]}: data_line_count={dl}, documented {nonblank} (count_lines() is the 1-based position among data lines)"
            if seq[-1]:
                if st["self._data_line_number"] != k - 1:
                    bad = bad or f"lines {['blank' if not d else 'data' for d in seq]}: data_line_number={st['self._data_line_number']}, documented {k - 1}"
    rep.check(bad is None, "R6", f"{fn.file}::LineMonitor.next_line counters", bad or f"{rows} sequences", K.where(fn, fn.node))
    # breadth-first driver: every un-stopped member gets one track_line per line, also when skip_all skips its matching
    from . import c08
    c08.byline(idx, rep, "R6", "R6", "quick", scenarios=("skipall", "stops_a"), aspects=("schedule",))
    c08.copies(idx, rep, "R6")
    rep.stats["table_rows"] = rep.stats.get("table_rows", 0) + rows


def r7(idx, rep, rid="R7"):
    fi = idx.method("Variable", "to_value")
    rep.analysed(fi)
    bad = None
    cases = [
        ({"v": 5}, None, 5), ({}, None, None), ({"v": {"k": 3}}, "k", 3), ({"v": {"k": 3}}, "z", None),
        ({"v": {True: 2, False: 6}}, "True", 2), ({"v": {True: 2, False: 6}}, "False", 6),
        ({"v": {"True": 1, True: 2}}, "True", 1), ({"v": {True: 2}}, "False", None), ({"v": {False: 6}}, "True", None),
    ]
    for variables, track, want in cases:
        it, st = _var_interp(idx, "Variable", variables=_copy(variables),
                             extra_handlers={"self.first_non_term_qualifier": lambda i, c, r, a, k, track=track: track},
                             store={"self.name": "v", "self.value": None})
        ps = it.run_all(fi, args={"skip": []}, store=st)
        if len(ps) != 1 or ps[0].result != ("return", want):
            bad = bad or f"@v{'.' + track if track else ''} with variables {variables}: reads {ps[0].result[1]!r}, documented {want!r}"
        if ps[0].final_store[VARS] != variables and want is not None:
            bad = bad or f"reading @v changed the variables: {variables} -> {ps[0].final_store[VARS]}"
    rep.check(bad is None, rid, f"{fi.file}::Variable.to_value table", bad or f"{len(cases)} rows", K.where(fi, fi.node))
    fm = idx.method("Variable", "matches")
    rep.analysed(fm)
    bad = None
    # bare @v is an existence test: any value other than None exists — "", "None", "nan", 0, False and [] included
    for val, asbool, want in ((None, False, False), (0, False, True), ("x", False, True), ("", False, True), ("None", False, True), ("nan", False, True), (False, False, True),
                              ([], False, True), (0, True, False), ("false", True, False), (3, True, True)):
        it = Interp(idx, types={"self": "Variable", FM.EU: FM.EU}, inline=FM.EU_INLINE, unknown_calls="residual",
                    domains={"self.asbool": [asbool], "self.match": [None]},
                    handlers={"self.to_value": lambda i, c, r, a, k, val=val: val, "math.isnan": FM._isnan})
        ps = it.run_all(fm, args={"skip": []})
        if len(ps) != 1 or ps[0].result != ("return", want):
            bad = bad or f"@v (value {val!r}, asbool={asbool}) votes {ps[0].result}, documented {want}"
    rep.check(bad is None, rid, f"{fm.file}::Variable.matches table", bad or "", K.where(fm, fm.node))


def r8(idx, rep):
    from . import c14

    class Proxy:
        def __init__(self, rep):
            self.rep = rep
            self.stats = rep.stats

        def __getattr__(self, n):
            return getattr(self.rep, n)

        def check(self, cond, rid, key, detail="", where=""):
            if key.endswith(" vote"):
                return True
            return self.rep.check(cond, "R8", key, detail, where)

    c14.r1(idx, Proxy(rep), "quick")
    c14.r2(idx, Proxy(rep))


def _lines_program(idx, cls, method, per_line, setup):
    """interpret cls.method once per line (resetting the per-line value) on one variable store; returns the store and the values"""
    fi = idx.method(cls, method)

    def program(it):
        vals = []
        for line in per_line:
            setup(it, line)
            it.store["self.value"] = None
            it.call_function(fi, {"skip": []}, "self")
            vals.append(it.store.get("self.value"))
        return vals

    return fi, program


def r9(idx, rep):
    C = FM.Child
    # ---- every(#a, 2): per distinct value, true on every 2nd sighting; bookkeeping under the qualifier name
    seq = ["x", "x", "y", "x", "y", "x"]
    cur = {}

    def setup_every(it, line):
        cur["v"] = line

    it, st = _var_interp(idx, "Every", children=[C("eq", left=C("l", value=None), right=C("r", value=2))],
                         extra_handlers={"self.me": lambda i, c, r, a, k: "ev"})
    it.handlers[".to_value"] = lambda i, c, r, a, k: cur["v"] if r.name == "l" else 2
    fi, program = _lines_program(idx, "Every", "_produce_value", seq, setup_every)
    rep.analysed(fi)
    ps = it.run_program(program, st)
    want_vals = []
    cnt = {}
    for v in seq:
        cnt[v] = cnt.get(v, 0) + 1
        want_vals.append(cnt[v] % 2)
    ok = len(ps) == 1 and ps[0].result == ("return", want_vals) and ps[0].final_store[VARS].get("ev") == cnt
    rep.check(ok, "R9", f"{fi.file}::Every sequence table", f"values {ps[0].result[1] if ps else None} / store {ps[0].final_store[VARS].get('ev') if ps else None}; documented {want_vals} / {cnt}", K.where(fi, fi.node))
    # ---- tally(#a): count per value under tally_<name>
    it, st = _var_interp(idx, "Tally", extra_handlers={"self.siblings": lambda i, c, r, a, k: [Obj("h")], "self.first_non_term_qualifier": lambda i, c, r, a, k: a[0] if a else None},
                         store={"h.name": "color"})
    it.handlers[".to_value"] = lambda i, c, r, a, k: cur["v"]
    ft, program = _lines_program(idx, "Tally", "_produce_value", ["red", "blue", "red", "", "red"], setup_every)
    it.inline |= {"Tally._store"}
    rep.analysed(ft)
    ps = it.run_program(program, st)
    got = ps[0].final_store[VARS] if len(ps) == 1 else None
    rep.check(got == {"tally_color": {"red": 3, "blue": 1}}, "R9", f"{ft.file}::Tally sequence table",
              f"variables = {got}; documented {{'tally_color': {{'red': 3, 'blue': 1}}}} and nothing else (blank values are not tallied; a one-argument tally keeps no combined count)", K.where(ft, ft.node))
    # tally(#a, #b): one count per argument plus the combined a|b count under 'tally'
    pair = {}
    it, st = _var_interp(idx, "Tally", extra_handlers={"self.siblings": lambda i, c, r, a, k: [Obj("h"), Obj("g")], "self.first_non_term_qualifier": lambda i, c, r, a, k: a[0] if a else None},
                         store={"h.name": "color", "g.name": "size"})
    it.handlers[".to_value"] = lambda i, c, r, a, k: pair["v"][0 if r.name == "h" else 1]

    def setup_pair(it_, line):
        pair["v"] = line

    ft2, program = _lines_program(idx, "Tally", "_produce_value", [("red", "S"), ("red", "L"), ("blue", "S"), ("red", "S"), ("", "M"), ("red", "")], setup_pair)
    it.inline |= {"Tally._store"}
    ps = it.run_program(program, st)
    got = ps[0].final_store[VARS] if len(ps) == 1 else None
    # (on a line where one of the headers is empty the others are still counted; an empty value itself is not a key of its header's count.
    # The combined keys of such lines, '|M' and 'red|', are what the code does today — nothing documents them — and are not judged.)
    want = {"tally_color": {"red": 4, "blue": 1}, "tally_size": {"S": 3, "L": 1, "M": 1}, "tally": {"red|S": 2, "red|L": 1, "blue|S": 1}}
    gotj = None if got is None else {k: ({kk: vv for kk, vv in v.items() if kk not in ("|M", "red|")} if k == "tally" and isinstance(v, dict) else v) for k, v in got.items()}
    rep.check(gotj == want, "R9", f"{ft.file}::Tally two-argument sequence table", f"variables = {got}; documented {want}", K.where(ft, ft.node))
    # ---- sum(#n): running sum
    it, st = _var_interp(idx, "Sum", children=[C("c0", value=None)], extra_handlers={"self.first_non_term_qualifier": lambda i, c, r, a, k: a[0] if a else None},
                         store={"self.name": "sum"})
    it.handlers[".to_value"] = lambda i, c, r, a, k: cur["v"]
    fsu, program = _lines_program(idx, "Sum", "_produce_value", ["1", "2.5", None, "", "4"], setup_every)
    rep.analysed(fsu)
    ps = it.run_program(program, st)
    ok = len(ps) == 1 and ps[0].result == ("return", [1.0, 3.5, 3.5, 3.5, 7.5]) and ps[0].final_store[VARS].get("sum") == 7.5
    rep.check(ok, "R9", f"{fsu.file}::Sum sequence table", f"{ps[0].result if ps else None}, store {ps[0].final_store[VARS].get('sum') if ps else None}; documented running sum [1.0, 3.5, 3.5, 3.5, 7.5]", K.where(fsu, fsu.node))
    # ---- counter(n): click counter
    it, st = _var_interp(idx, "Counter", extra_handlers={"self.first_non_term_qualifier": lambda i, c, r, a, k: "clicks", "self.get_id": lambda i, c, r, a, k: "id",
                                                        "self._value_one": lambda i, c, r, a, k: cur["v"]})
    fco, program = _lines_program(idx, "Counter", "_produce_value", [None, None, 5, "2", None, 0, "0", None], setup_every)
    rep.analysed(fco)
    ps = it.run_program(program, st)
    ok = len(ps) == 1 and ps[0].result == ("return", [1, 2, 7, 9, 10, 10, 10, 11]) and ps[0].final_store[VARS].get("clicks") == 11
    rep.check(ok, "R9", f"{fco.file}::Counter sequence table", f"{ps[0].result if ps else None}; documented [1, 2, 7, 9, 10, 10, 10, 11] (no argument adds 1, an argument of 0 adds 0)", K.where(fco, fco.node))

    # ---- first(#a): per value the physical line number of its first sighting (line 0 included), a match on that line only
    ffv = idx.method("First", "to_value")
    ffm = idx.method("First", "_decide_match")
    ffr = idx.method("First", "reset")
    rep.analysed(ffv, ffm, ffr)
    seq = ["k", "x", "k", "x", "k", "y"]
    it, st = _var_interp(idx, "First", children=[C("c0", value=None)], extra_handlers={"self.first_non_term_qualifier": lambda i, c, r, a, k: a[0] if a else None,
                                                                                      "super": lambda i, c, r, a, k: Obj("__super__"), "__super__.reset": lambda i, c, r, a, k: None},
                         extra_domains={"self.onmatch": [False]}, store={"self.name": "first"})
    it.types["c0"] = "Header"
    it.handlers[".to_value"] = lambda i, c, r, a, k: cur["v"]

    def program(i):
        out = []
        for n, v in enumerate(seq):
            cur["v"] = v
            i.store[f"{CP}.line_monitor.physical_line_number"] = n
            i.call_function(ffr, {"__pos__": []}, "self")
            val = i.call_function(ffv, {"skip": []}, "self")
            i.call_function(ffm, {"skip": []}, "self")
            out.append((val, i.store.get("self.match"), dict(i.store[VARS].get("first") or {})))
        return out

    ps = it.run_program(program, st)
    want, seen = [], {}
    for n, v in enumerate(seq):
        earlier = seen.get(v)
        seen.setdefault(v, n)
        want.append((earlier, earlier is None, dict(seen)))
    got = ps[0].result[1] if len(ps) == 1 and ps[0].result[0] == "return" else [p.result for p in ps][:2]
    d = next((f"line {n} (value {seq[n]!r}): first() gives (value, match, bookkeeping) = {g}, documented {w}" for n, (g, w) in enumerate(zip(got, want)) if tuple(g) != w), None) \
        if isinstance(got, list) and len(got) == len(want) and all(isinstance(g, tuple) for g in got) else f"{got}"
    rep.check(d is None, "R9", f"{ffv.file}::First sequence table", d or "6 lines", K.where(ffv, ffv.node))


# ------------------------------------------------------------------------------------------ durable ids
def durable_ids(idx, rep, rid):
    """count()/every()/tally()/once/onchange keep their state under ExpressionUtility.get_id(component). The id is a digest of
    str(component) and of its ancestors, so two components whose text differs (argument header, argument value, function name) must
    have different ids — otherwise they share one tally. Decided by interpreting get_id and the __str__ methods it goes through on a
    small component tree: expression → function(name) → argument list (header, term)."""
    fi = idx.method("ExpressionUtility", "get_id")
    strs = [idx.method(c, "__str__") for c in ("Function", "Equality", "Header", "Term", "Expression")]
    rep.analysed(fi, *strs)
    types = {"cls": "ExpressionUtility", "self": "ExpressionUtility", "f": "Function", "eq": "Equality", "h": "Header", "t": "Term", "e": "Expression"}
    inl = {f"{c}.__str__" for c in ("Function", "Equality", "Header", "Term", "Expression", "Variable")}

    def tree(fname, hname, tval):
        return {"f._function_or_equality": Obj("eq"), "f.parent": Obj("e"), "e.parent": None, "f.qualified_name": fname, "f.name": fname, "f.children": [Obj("eq")],
                "eq.op": ",", "eq.children": [Obj("h"), Obj("t")], "eq.left": Obj("h"), "eq.right": Obj("t"), "eq.parent": Obj("f"),
                "h.qualified_name": hname, "h.name": hname, "t.value": tval, "e.children": [Obj("f")]}

    def ident(fname, hname, tval):
        it = Interp(idx, types=types, inline=inl, unknown_calls="error",
                    handlers={"hashlib.sha256": lambda i, c, r, a, k: Obj("sha256:" + (a[0].decode() if isinstance(a[0], bytes) else str(a[0]))),
                              ".hexdigest": lambda i, c, r, a, k: r.name,
                              "._simple_class_name": lambda i, c, r, a, k: i.types.get(getattr(r, "name", None) or r.text, "?")})
        ps = it.run_all(fi, args={"thing": Obj("f")}, store=tree(fname, hname, tval))
        if len(ps) != 1 or ps[0].result[0] != "return" or not isinstance(ps[0].result[1], str):
            raise AnalysisError(f"{rep.pid}.{rid}: get_id does not return one concrete id on a concrete component tree: {[p.result for p in ps]}")
        return ps[0].result[1]

    base = ("every", "a", 2)
    variants = {"argument header": ("every", "b", 2), "argument value": ("every", "a", 3), "function name": ("tally", "a", 2)}
    b = ident(*base)
    bad = None
    for what, v in variants.items():
        if ident(*v) == b:
            bad = bad or (f"{base[0]}(#{base[1]}, {base[2]}) and {v[0]}(#{v[1]}, {v[2]}) get the same durable id {b[:60]}…: components that differ in their {what} "
                          "share one tally / once flag")
    if ident(*base) != b:
        bad = bad or "get_id is not a function of the component tree (two evaluations differ)"
    rep.check(bad is None, rid, f"{fi.file}::ExpressionUtility.get_id distinguishes components by their text", bad or f"{len(variants)} variants", K.where(fi, fi.node))
