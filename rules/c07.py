"""C07 — collect(), next() and fast_forward() are the same run.

  R1 one engine         collect and fast_forward obtain lines only by iterating self.next(); neither drives lines itself
  R2 no extra effects   attributes written by collect ⊆ {collecting, lines}; by fast_forward: none
  R3 nexts              collect decision table: nexts=-1 → every yielded line, nexts=n → exactly the first n, stopping there
  R4 finalisation       next(): finalize() on every normal exit; a stop ends the run after the current line (table)
  R5 epilogue           next() cannot fault after the reader loop (0-record file: monitor counts are None)
  R6 line identity      limit_collection returns the line itself or a fresh list; collect stores a copy
  R7 partition          per reader line exactly one of {yield, unmatched.append when collecting∧unmatched-mode keep}; the stop
                        test is reached after either
"""
import ast

from sa.index import AnalysisError, unparse, walk_no_nested, call_name, stores_in
from sa.absint import Interp, Obj, Residual
from . import common as K
from . import next_model as NM


def run(idx, rep, tier):
    rep.explanation = (
        "collect() and fast_forward() are shown to be thin loops over the generator next() (who-may-call + effect set), the nexts cut-off is "
        "tabulated by abstract interpretation, and the generator itself is tabulated over reader lines x votes x stop points x collecting x "
        "unmatched-mode x monitor counts {None,0,3}: yields, unmatched appends, the stop test, finalize() and a fault-free epilogue.")
    rep.rule("R1", "collect/fast_forward iterate self.next() and never drive lines themselves")
    rep.rule("R2", "collect/fast_forward write no run state of their own")
    rep.rule("R3", "collect(nexts=n) returns the first n yielded lines and stops iterating there")
    rep.rule("R4", "next() finalizes on every normal exit and stops after the line on which stop fired")
    rep.rule("R5", "next() cannot fault after the reader loop")
    rep.rule("R6", "yielded lines are the reader's line or a fresh projection; collect stores a copy")
    rep.rule("R7", "each reader line is yielded or (when kept) appended to unmatched, never both, and the stop test follows")
    rep.rule("R8", "the group-level siblings collect_paths/fast_forward_paths/next_paths follow one run protocol and end the same way for every member outcome")
    r1_r2(idx, rep)
    r3(idx, rep)
    r4_r5_r7(idx, rep)
    unmatched_step(idx, rep)
    r6(idx, rep)
    # how the run is driven is invisible to the match part: `collecting` (set by collect() only) is read by the generator's unmatched step
    # and by nothing else — a component that looked at it would behave differently under next()/fast_forward() than under collect()
    reads = []
    for fi in idx.all_funcs("csvpath/"):
        for n in walk_no_nested(fi.node):
            if isinstance(n, ast.Attribute) and n.attr in ("collecting", "_collecting") and isinstance(n.ctx, ast.Load):
                reads.append((fi, n))
    for fi, n in reads:
        # the run itself: the per-line driver, the match components, the scanner and the modes.  What the archive does after the run
        # (the spooler leaving an empty data.csv for a collecting run) is not part of the run.
        in_run = fi.file == "csvpath/csvpath.py" or fi.file.startswith(("csvpath/matching/", "csvpath/scanning/", "csvpath/modes/"))
        if not in_run:
            continue
        okr = K.owner_of(idx, fi, {"CsvPath.next"}) is not None or (fi.cls == "CsvPath" and fi.name == "collecting")
        if not okr and not K.callers_of(idx, fi) and not fi.name.startswith("__"):
            # a function nothing in the package calls (an inspection helper for the user) is not part of any run
            rep.ok("R2", f"{fi.file}::{fi.qual} reads collecting", "not reachable from a run: no call site in the package", K.where(fi, n))
            continue
        rep.check(okr, "R2", f"{fi.file}::{fi.qual} reads collecting", f"`{unparse(n)}`: only the generator's unmatched step may depend on whether the caller is collect(); "
                  "anything else makes collect(), next() and fast_forward() different runs", K.where(fi, n))
    rep.floor("R2", 1, "reads of collecting")
    # a csvpath created by a CsvPaths gets its own copy of the cached headers: an in-place header edit (append()) in the collect() run
    # must not be visible to the later next()/fast_forward() runs of the same file
    from . import c08
    c08.copies(idx, rep, "R6")
    # whether unmatched lines are kept at all is the unmatched-mode value (the generator table above takes it as an input)
    from . import c15
    c15.mode_value_tables(idx, rep, "R7", classes={"UnmatchedMode"})
    # the same three ways of driving, one level up: whatever a member does (loads, runs, raises), the three group methods go through the same
    # steps and end the same way (one protocol judged for all three; what each does per member is R1-R7)
    c08.serial(idx, rep, "R8", aspects=("protocol", "outcome"))
    rep.stats["exhaustive"] = True


def lazy_consumption(idx, fi, m):
    """collect()/fast_forward() interpreted over a generator that records every pull: each line is pulled once, in order, and only when
    the previous one has been dealt with (a list() around the generator, or a look-ahead pull, would run the side effects of later
    lines before/without the caller seeing them); a cut-off at nexts pulls nothing past the last line handed on."""
    for total in (0, 1, 3):
        for nexts in ((-1, 1, 2) if m == "collect" else (None,)):
            lines = [[f"a{i}", f"b{i}"] for i in range(total)]

            def nxt(i, c, r, a, k, lines=lines):
                i.record_call("next()")

                def g():
                    for j, x in enumerate(lines):
                        i.record_call("pull", j)
                        yield list(x)
                    i.record_call("exhausted")
                return g()

            it = Interp(idx, types={"self": "CsvPath"}, unknown_calls="residual", domains={"self.scanner": [Obj("scanner")]},
                        handlers={"self.next": nxt, "ListLineSpooler": lambda i, c, r, a, k: Obj("spool"),
                                  "spool.append": lambda i, c, r, a, k: i.record_call("append", a[0]),
                                  "self.lines.append": lambda i, c, r, a, k: i.record_call("append", a[0])})
            args = {"csvpath": None}
            if m == "collect":
                args.update({"nexts": nexts, "lines": None})
            ps = it.run_all(fi, args=args)
            if len(ps) != 1 or ps[0].result[0] != "return":
                return False, f"{total} lines, nexts={nexts}: {len(ps)} paths, {ps[0].result}"
            ev = [(kk, v) for k, kk, v in ps[0].trace if k == "call" and kk in ("next()", "pull", "append", "exhausted")]
            cut = total if nexts in (-1, None) else min(total, max(nexts, 1))
            want = [("next()", None)]
            for j in range(cut):
                want.append(("pull", j))
                if m == "collect":
                    want.append(("append", lines[j]))
            if cut == total and (nexts in (-1, None) or total < max(nexts, 1)):
                want.append(("exhausted", None))
            if ev != want:
                return False, (f"{total} lines, nexts={nexts}: the generator is used as {ev}; documented {want} (one self.next(), each line pulled once, in order, "
                               "only after the previous one was dealt with, nothing pulled past the cut-off)")
    return True, "lines come lazily from the one generator"


def r1_r2(idx, rep):
    drivers = {"_consider_line", "_next_line", "matches", "track_line", "limit_collection"}
    for m, allowed_writes in (("collect", {"collecting", "lines"}), ("fast_forward", set())):
        fi = idx.method("CsvPath", m)
        rep.analysed(fi)
        okl, detail = lazy_consumption(idx, fi, m)
        rep.check(okl, "R1", f"{fi.file}::CsvPath.{m} iterates self.next()", detail, K.where(fi, fi.node))
        direct = [unparse(c) for c in walk_no_nested(fi.node) if isinstance(c, ast.Call) and call_name(c) in drivers and (K.call_receiver(c) or "").startswith("self")]
        rep.check(not direct, "R1", f"{fi.file}::CsvPath.{m} does not drive lines itself", f"{direct}", K.where(fi, fi.node))
        writes = {t.attr for t, v, st in stores_in(fi.node) if isinstance(t, ast.Attribute) and unparse(t.value) == "self"}
        rep.check(writes <= allowed_writes, "R2", f"{fi.file}::CsvPath.{m} effect set", f"writes self.{sorted(writes - allowed_writes)}; the run state belongs to next()", K.where(fi, fi.node))
        # parse only when not yet parsed
        calls = [c for c in walk_no_nested(fi.node) if isinstance(c, ast.Call) and call_name(c) == "parse"]
        okp = all(K.equiv(K.guard_of(fi, c), K.formula("self.scanner is None and csvpath is not None"))[0] for c in calls)
        rep.check(okp, "R2", f"{fi.file}::CsvPath.{m} parses only an unparsed instance", "", K.where(fi, fi.node))


def r3(idx, rep):
    fi = idx.method("CsvPath", "collect")
    rep.analysed(fi)
    bad = None
    n = 0
    for total in (0, 1, 3, 4):
        for nexts in (-1, 1, 2, 3, 5):
            lines = [[f"a{i}", f"b{i}"] for i in range(total)]

            def spool(i, c, r, a, k):
                return Obj("spool")

            it = Interp(idx, types={"self": "CsvPath"}, unknown_calls="residual",
                        domains={"self.scanner": [Obj("scanner")]},
                        handlers={"self.next": lambda i, c, r, a, k, lines=lines: [list(x) for x in lines], "ListLineSpooler": spool,
                                  "spool.append": lambda i, c, r, a, k: i.record_call("append", a[0]),
                                  "self.lines.append": lambda i, c, r, a, k: i.record_call("append", a[0])})
            ps = it.run_all(fi, args={"csvpath": None, "nexts": nexts, "lines": None})
            n += 1
            want = lines if nexts == -1 else lines[:nexts]
            for p in ps:
                got = [v for kk, v in p.calls("append")]
                if p.result[0] != "return" or got != want:
                    bad = bad or f"{total} matching lines, nexts={nexts}: collects {got} ({p.result[0]}); documented the first {len(want)} line(s) {want}"
            if len(ps) != 1:
                bad = bad or f"nexts={nexts}: the cut-off depends on something other than the count of lines yielded ({ps[0].summary()['choices']})"
    rep.check(bad is None, "R3", f"{fi.file}::CsvPath.collect nexts table", bad or f"{n} rows", K.where(fi, fi.node))
    # nexts < -1 is rejected before anything runs
    it = Interp(idx, types={"self": "CsvPath"}, unknown_calls="residual", domains={"self.scanner": [Obj("scanner")]},
                handlers={"self.next": lambda i, c, r, a, k: (i.record_call("next"), [])[1]})
    ps = it.run_all(fi, args={"csvpath": None, "nexts": -2, "lines": None})
    rep.check(len(ps) == 1 and ps[0].result[0] == "raise" and not ps[0].calls("next"), "R3", f"{fi.file}::CsvPath.collect rejects nexts < -1", f"{ps[0].result}", K.where(fi, fi.node))
    # the break follows the append directly (no call between the n-th append and leaving the loop)
    lp = [n for n in walk_no_nested(fi.node) if isinstance(n, ast.For)][0]
    idx_app = [i for i, st in enumerate(lp.body) if K.has_call(st, "append")]
    tail = lp.body[idx_app[-1] + 1:] if idx_app else []
    extra = [unparse(c) for st in tail for c in ast.walk(st) if isinstance(c, ast.Call)]
    rep.check(bool(idx_app) and not extra, "R3", f"{fi.file}::CsvPath.collect no work between the n-th line and the cut-off", f"calls after the append: {extra}", K.where(fi, lp))


def unmatched_step(idx, rep):
    """Keeping unmatched lines is what only a collecting run does.  That step must not be able to end the run: a collect() that raises
    where next()/fast_forward() complete is not the same run.  CsvPath.next is interpreted (with the real limit_collection) on lines
    that do not match — among them a blank line and a line too short for the collected header — once collecting, once not."""
    fi = idx.method("CsvPath", "next")
    rep.analysed(fi, idx.method("CsvPath", "limit_collection"))
    lines = [["1", "2", "3"], [], ["4"]]
    ends = {}
    for limit in ([1], [-1], [0, -3]):
      for collecting in (False, True):
          it = Interp(idx, types={"self": "CsvPath"}, unknown_calls="residual", inline_all={"CsvPath"}, inline={"CsvPath.limit_collection", "CsvPath.limit_collection_to"},
                      domains={"self.scanner": [Obj("scanner")]},
                      handlers={"self._next_line": lambda i, c, r, a, k: [list(x) for x in lines], "self._consider_line": lambda i, c, r, a, k: False,
                                "self.finalize": lambda i, c, r, a, k: i.record_call("finalize")})
          store = {"self.stopped": False, "self.unmatched": None, "self.will_run": True, "self.collecting": collecting, "self.unmatched_available": True,
                   "self." + K.names(idx)["limit"]: list(limit), "self.limit_collection_to": list(limit), "self.line_monitor.physical_end_line_count": 3,
                   "self.line_monitor.physical_line_number": 1, "self.identity": "id"}
          ps = it.run_all(fi, args={"csvpath": None}, store=store)
          ends.setdefault(collecting, set()).update({(p.result[0], p.result[1] if p.result[0] == "raise" else None, bool(p.calls("finalize")), p.final_store.get("self.stopped")) for p in ps})
    ends = {k: sorted(v, key=str) for k, v in ends.items()}
    ok = ends[True] == ends[False] and all(e[0] == "return" for e in ends[True])
    rep.check(ok, "R2", f"{fi.file}::CsvPath.next keeping unmatched lines cannot end the run",
              f"three lines that do not match ([1,2,3], a blank line, [4]) under unmatched-mode keep with collect(1), collect(-1) and collect(0, -3): a collecting run ends {ends[True]}, "
              f"a non-collecting run ends {ends[False]} (outcome, exception, finalized, stopped); documented: the same — collect() must not raise where next() and fast_forward() complete",
              K.where(fi, fi.node))


def r4_r5_r7(idx, rep):
    fi, rows = NM.rows(idx, nlines=3)
    rep.analysed(fi)
    bad = {}
    for n, p in rows:
        will = p.atom("self.will_run")
        cfg = [(t, v) for t, v in p.choices if not t.startswith("self.scanner")]
        if p.result[0] != "return":
            bad.setdefault("epilogue", f"{cfg}: next() ends in {p.result} ({[t for t in p.trace if t[0] == 'raise']}); a file with no records leaves the monitor counts None")
            continue
        calls = [kk for k, kk, v in p.trace if k == "call"]
        if "finalize" not in calls:
            bad.setdefault("finalize", f"{cfg}: next() returns without finalize()")
        if not will:
            continue
        collecting = p.atom("self.collecting")
        keep = p.atom("self.unmatched_available")
        stopped = False
        want = []
        for i in range(n):
            if stopped:
                break
            if p.atom(f"consider(L{i})"):
                want.append(("yield", f"limited(L{i})"))
            elif collecting and keep:
                want.append(("unmatched", f"limited(L{i})"))
            if p.atom(f"stops(L{i})"):
                stopped = True
        nm = lambda v: getattr(v, "name", getattr(v, "text", v))
        # (the model runs without a collect() projection: an unmatched line kept as it is and one passed through the projection are the same line)
        un = lambda v: f"limited({nm(v)})" if isinstance(nm(v), str) and nm(v).startswith("L") else nm(v)
        got_y = [("yield", nm(v)) for k, kk, v in p.trace if k == "yield"]
        got_u = [("unmatched", un(v)) for v in (p.final_store.get("self.unmatched") or [])]
        got_u += [("unmatched", un(v)) for k, kk, v in p.trace if k == "call" and kk == "unmatched.append"]
        if got_y != [w for w in want if w[0] == "yield"] or got_u != [w for w in want if w[0] == "unmatched"]:
            bad.setdefault("partition", f"{n} lines {cfg}: yields {got_y}, unmatched {got_u}; documented {want} (each line yielded or, with unmatched-mode keep while collecting, kept as unmatched — once, in order, none after the stop)")
        cons = [v.text for k, kk, v in p.trace if k == "call" and kk == "_consider_line"]
        seen = []
        st = False
        for i in range(n):
            if st:
                break
            seen.append(f"L{i}")
            st = bool(p.atom(f"stops(L{i})"))
        if cons != seen:
            bad.setdefault("stop", f"{n} lines {cfg}: considered {cons}, documented {seen} (the stopped test follows every line, matched or not)")
    rep.check("finalize" not in bad, "R4", f"{fi.file}::CsvPath.next finalize on every exit", bad.get("finalize", f"{len(rows)} paths"), K.where(fi, fi.node))
    rep.check("stop" not in bad, "R4", f"{fi.file}::CsvPath.next stops after the stopping line", bad.get("stop", ""), K.where(fi, fi.node))
    rep.check("epilogue" not in bad, "R5", f"{fi.file}::CsvPath.next epilogue cannot fault", bad.get("epilogue", ""), K.where(fi, fi.node))
    rep.check("partition" not in bad, "R7", f"{fi.file}::CsvPath.next yield/unmatched partition", bad.get("partition", ""), K.where(fi, fi.node))
    rep.stats["table_rows"] = rep.stats.get("table_rows", 0) + len(rows)
    # the yield is not inside a try/finally or with whose cleanup writes run state
    for n in walk_no_nested(fi.node):
        if isinstance(n, (ast.Try, ast.With)):
            has_y = any(isinstance(x, ast.Yield) for x in ast.walk(n))
            rep.check(not has_y, "R4", f"{fi.file}::CsvPath.next yield outside try/with", "a yield inside try/finally or with runs cleanup when the generator is abandoned", K.where(fi, n))
    # finalize: freezes and clears caches
    ff, ps = K.sym_result(idx, "CsvPath", "finalize", domains={"self.matcher": [None]}, store={"self." + K.names(idx)["frozen"]: False})
    rep.check(len(ps) == 1 and ps[0].final_store.get("self." + K.names(idx)["frozen"]) is True, "R4", f"{ff.file}::CsvPath.finalize freezes the path", "", K.where(ff, ff.node))


def r6(idx, rep):
    fi = idx.method("CsvPath", "limit_collection")
    rep.analysed(fi)
    bad = None
    # no projection: the same object; projection: fresh list each call, first result untouched by the second
    def program(it):
        l1 = ["a", "b", "c"]
        l2 = ["d", "e", "f"]
        r1 = it.call_function(fi, {"line": l1}, "self")
        if not isinstance(r1, list):
            raise AnalysisError(f"limit_collection returns a non-list value {r1!r} in the model")
        snap = list(r1)
        r2 = it.call_function(fi, {"line": l2}, "self")
        return (l1, r1, snap, l2, r2)

    for proj in ([], [0, 2], [1]):
        it = Interp(idx, types={"self": "CsvPath"}, unknown_calls="residual")
        st = K.instance_store(idx, "CsvPath")
        st.update({"self.limit_collection_to": list(proj), "self." + K.names(idx)["limit"]: list(proj)})
        ps = it.run_program(program, st)
        if len(ps) != 1 or ps[0].result[0] != "return":
            bad = bad or f"projection {proj}: {[p.result for p in ps]}"
            continue
        l1, r1, snap, l2, r2 = ps[0].result[1]
        if l1 != ["a", "b", "c"] or l2 != ["d", "e", "f"]:
            bad = bad or (f"projection {proj}: limit_collection changes the line it is given ({['a', 'b', 'c']} became {l1}): the line belongs to the caller — in a breadth-first "
                          "run the members after this one, and the caller of next_by_line, would see the narrowed row")
            continue
        want1 = l1 if not proj else [l1[i] for i in proj]
        want2 = l2 if not proj else [l2[i] for i in proj]
        if snap != want1 or r2 != want2:
            bad = bad or f"projection {proj}: returns {snap} then {r2}, documented {want1} then {want2}"
        if proj and (r1 is r2 or r1 != snap):
            bad = bad or f"projection {proj}: the list returned for one line is reused for the next (first result became {r1}); a caller keeping what next() yields would see every line alias the last one"
        if not proj and r1 is not l1:
            pass
    rep.check(bad is None, "R6", f"{fi.file}::CsvPath.limit_collection table", bad or "", K.where(fi, fi.node))
    # out-of-range projection raises
    it = Interp(idx, types={"self": "CsvPath"}, unknown_calls="residual")
    ps = it.run_all(fi, args={"line": ["a"]}, store={"self.limit_collection_to": [3], "self." + K.names(idx)["limit"]: [3]})
    rep.check(len(ps) == 1 and ps[0].result[0] == "raise", "R6", f"{fi.file}::CsvPath.limit_collection rejects a missing header", f"{ps[0].result}", K.where(fi, fi.node))
    # collect(): what it returns are copies of exactly the lines next() yields — same cells (a None cell stays None), other list objects
    fc = idx.method("CsvPath", "collect")
    finit = idx.method("ListLineSpooler", "__init__")
    rep.analysed(fc, idx.method("ListLineSpooler", "append"))
    yielded = [["10", "frog", None], ["a", "", "c"], []]

    def spooler(i, c, r, a, k):
        i.types["LS"] = "ListLineSpooler"
        i.inline |= {"ListLineSpooler.append", "ListLineSpooler.__len__"}
        kw = dict(k)
        kw["__pos__"] = list(a)
        i.call_function(finit, kw, "LS")
        return Obj("LS")

    it = Interp(idx, types={"self": "CsvPath"}, unknown_calls="residual", inline={"ListLineSpooler.append"},
                handlers={"self.next": lambda i, c, r, a, k: yielded, "ListLineSpooler": spooler, "super": lambda i, c, r, a, k: Obj("__super__"),
                          "__super__.__init__": lambda i, c, r, a, k: None})
    st = K.instance_store(idx, "CsvPath")
    st.update({"self.scanner": Obj("scanner")})
    ps = it.run_all(fc, args={"csvpath": None, "nexts": -1, "lines": None}, store=st)
    bad = None
    for p in ps:
        if p.result[0] != "return" or not isinstance(p.result[1], list):
            bad = bad or f"collect() ends in {p.result}"
            continue
        got = p.result[1]
        if got != yielded:
            bad = bad or f"next() yields {yielded}, collect() returns {got}: the three methods are the same run, so collect() holds what next() yields, cell for cell"
        elif any(g is y for g, y in zip(got, yielded)):
            bad = bad or "collect() keeps the yielded list objects themselves (a later in-place rewrite of the line would change what was collected)"
    rep.check(bad is None and len(ps) >= 1, "R6", f"{fc.file}::CsvPath.collect stores a copy of each line", bad or "", K.where(fc, fc.node))
