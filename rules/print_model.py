"""Model of the print() pipeline (C16): the print grammar string is taken from the AST and given to Lark (trusted grammar engine,
same Earley/explicit-ambiguity configuration as the code); the transformer callbacks and PrintParser._to_string are *interpreted*
(sa.absint) bottom-up over the resulting tree, with reference look-ups replaced by a marker.  The output for a print string is thus
derived from the source of the callbacks, never by importing them."""
import ast

import lark

from sa.absint import Interp, Obj, Residual, Raised
from sa.index import AnalysisError, unparse


def grammar(idx):
    from . import common as K
    return K.lark_ctor(idx, "LarkPrintParser")


class PrintModel:
    def __init__(self, idx):
        self.idx = idx
        g, ctor = grammar(idx)
        self.gsrc = g
        self.parser = lark.Lark(g, **ctor)
        self.tcls = idx.cls("LarkPrintTransformer")
        self.fparse = idx.method("LarkPrintParser", "parse")
        self.fto = idx.method("PrintParser", "_to_string")
        self.callbacks = set(self.tcls.methods)
        # what does parse() hand to the parser for a given print string?  (interpreted)
        self._n = 0

    def parsed_text(self, s):
        it = Interp(self.idx, types={"self": "LarkPrintParser"}, unknown_calls="residual",
                    handlers={"self.parser.parse": lambda i, c, r, a, k: (i.record_call("parse", a[0]), Obj("TREE"))[1]})
        ps = it.run_all(self.fparse, args={"printstr": s})
        if len(ps) != 1 or not ps[0].calls("parse"):
            raise AnalysisError("LarkPrintParser.parse is not a straight-line wrapper any more")
        return ps[0].calls("parse")[0][1]

    def render(self, s):
        """returns ('ok', text) | ('parse-error', msg) | ('ambiguous', n) | ('raise', typ)"""
        text = self.parsed_text(s)
        if not isinstance(text, str):
            return ("raise", f"parse() passes {text!r}")
        try:
            tree = self.parser.parse(text)
        except Exception as e:  # pylint: disable=W0718
            return ("parse-error", type(e).__name__)
        if any(t.data == "_ambig" for t in tree.iter_subtrees()):
            return ("ambiguous", 0)
        it = Interp(self.idx, types={"self": "LarkPrintTransformer", "pp": "PrintParser"}, unknown_calls="residual",
                    handlers={"pp._handle_replacement": lambda i, c, r, a, k: "<" + ".".join([a[0]["data_type"]] + list(a[0]["name"])) + ">"},
                    isinstance_oracle=None)
        store = {"self.pending_text": []}

        def program(it):
            items = self._transform(it, tree)
            return it.call_function(self.fto, {"ts": list(items)}, "pp")

        ps = it.run_program(program, store)
        if len(ps) != 1:
            return ("raise", f"transformer not deterministic ({len(ps)} paths)")
        k, v = ps[0].result
        if k != "return":
            return ("raise", v)
        return ("ok", v)

    def _transform(self, it, node):
        if isinstance(node, lark.Tree):
            kids = [self._transform(it, c) for c in node.children]
            name = node.data if isinstance(node.data, str) else node.data.value
            if name in self.callbacks:
                fi = self.tcls.methods[name]
                return it.call_function(fi, {"__pos__": kids}, "self")
            return kids
        # token
        tname = node.type
        self._n += 1
        tok = Obj(f"tok{self._n}")
        it.store[f"{tok.name}.value"] = str(node)
        if tname in self.callbacks:
            fi = self.tcls.methods[tname]
            return it.call_function(fi, {"__pos__": [tok]}, "self")
        return str(node)
