"""Value/vote tables of individual match functions by abstract interpretation of their ASTs.

A function instance is modelled as `self` with abstract children: every child is an Obj whose
`matches()` / `to_value()` answers come from the configuration under test; Equality children expose
`.left` / `.right` / `commas_to_list()`; `self.siblings()` returns the configured list.  The observed
`self.match` / `self.value` stores (or the returned value) are compared with a documented-value table
kept in the rule module.
"""
import math

from sa.absint import Interp, Obj, Residual, Raised
from sa.index import AnalysisError

EU = "ExpressionUtility"
EU_INLINE = {f"{EU}.{m}" for m in ("is_empty", "is_none", "isnan", "is_number", "to_int", "to_float", "asbool", "all", "to_bool")}


def _isnan(interp, call, recv, args, kwargs):
    v = args[0]
    if isinstance(v, (Residual, Obj)):
        return False
    try:
        return math.isnan(v)
    except TypeError:
        raise Raised("TypeError")


class Child:
    """configuration of one abstract child: its vote, its value, optional left/right/list structure"""

    def __init__(self, name, vote=None, value=None, left=None, right=None, items=None, kind=None):
        self.name = name
        self.vote = vote
        self.value = value
        self.left = left
        self.right = right
        self.items = items
        self.kind = kind


def run_function(idx, cls, method, children, *, name=None, siblings=None, extra_store=None, extra_handlers=None,
                 extra_domains=None, isinstance_map=None, args=None, inline=(), unknown="residual"):
    """interpret cls.method on the abstract instance; returns the list of paths"""
    fi = idx.method(cls, method)
    objs = {}
    store = {}

    def reg(c):
        o = Obj(c.name)
        objs[c.name] = c
        if c.left is not None:
            store[f"{c.name}.left"] = reg(c.left)
        if c.right is not None:
            store[f"{c.name}.right"] = reg(c.right)
        if c.items is not None:
            store[f"{c.name}.__items__"] = [reg(x) for x in c.items]
            store[f"{c.name}.children"] = store[f"{c.name}.__items__"]
        return o

    store["self.children"] = [reg(c) for c in children]
    if name is not None:
        store["self.name"] = name
    if extra_store:
        store.update(extra_store)
    sib_objs = [Obj(c.name) for c in siblings] if siblings is not None else None
    if siblings is not None:
        for c in siblings:
            if c.name not in objs:
                reg(c)

    def h_matches(interp, call, recv, a, kw):
        c = objs.get(getattr(recv, "name", None))
        if c is None:
            raise AnalysisError(f"matches() on unmodelled receiver {recv}")
        interp.record_call(f"{c.name}.matches")
        if c.vote == "RAISE":
            raise Raised("ValueError")
        return c.vote

    def h_value(interp, call, recv, a, kw):
        c = objs.get(getattr(recv, "name", None))
        if c is None:
            raise AnalysisError(f"to_value() on unmodelled receiver {recv}")
        interp.record_call(f"{c.name}.to_value")
        return c.value

    def h_commas(interp, call, recv, a, kw):
        return list(interp.store.get(f"{recv.name}.__items__", []))

    def h_siblings(interp, call, recv, a, kw):
        if sib_objs is not None:
            return list(sib_objs)
        # default: children of a single Equality child, else the children
        ch = interp.store["self.children"]
        if len(ch) == 1 and f"{ch[0].name}.__items__" in interp.store:
            return list(interp.store[f"{ch[0].name}.__items__"])
        return list(ch)

    def iso(interp, a, call):
        o, t = a[0], a[1]
        tn = t.text if isinstance(t, Residual) else str(t)
        if isinstance(o, Obj):
            k = objs[o.name].kind if o.name in objs else None
            if isinstance(t, (list, tuple)):
                return any((x.text if isinstance(x, Residual) else str(x)) == k for x in t)
            return tn == k
        if isinstance(o, Residual):
            return interp.choose(f"isinstance({o.text}, {tn})", [False, True])
        pt = {"str": str, "int": int, "float": float, "list": list, "tuple": tuple, "dict": dict, "bool": bool}
        if isinstance(t, (list, tuple)):
            return any(isinstance(o, pt[x.text]) for x in t if isinstance(x, Residual) and x.text in pt)
        if tn in pt:
            return isinstance(o, pt[tn])
        return False

    handlers = {".matches": h_matches, ".to_value": h_value, ".commas_to_list": h_commas, "self.siblings": h_siblings,
                "self.siblings_or_equality": h_siblings, "math.isnan": _isnan}
    if extra_handlers:
        handlers.update(extra_handlers)
    types = {"self": cls, EU: EU}
    it = Interp(idx, types=types, handlers=handlers, inline=set(inline) | EU_INLINE, unknown_calls=unknown,
                domains=dict(extra_domains or {}), isinstance_oracle=iso)
    paths = it.run_all(fi, args=dict(args or {"skip": []}), store=store)
    return fi, paths


def final(p, key):
    s = p.sets(key)
    return s[-1] if s else "<unset>"
