"""decision table of ValidationMode's per-flag parsers over a finite domain of validation-mode strings.

Each set_<flag>_validation_errors(veh) is interpreted (AST, builtin str operations only) on every
string built from ≤ 2 of the documented tokens, in both orders, with the ', ' separator: the flag must
become False when the 'no-<flag>' token is present, True when the '<flag>' token is present (and the
negative one is not), and the documented default otherwise — wherever the token stands in the string."""
import ast
import itertools

from sa.absint import Interp, Residual
from sa.index import AnalysisError
from . import common as K

FLAGS = {
    # flag -> (setter, attribute written, default)
    "print": ("set_print_validation_errors", "_print_validation_errors", None),
    "raise": ("set_raise_validation_errors", "_raise_validation_errors", None),
    "match": ("set_match_validation_errors", "_match_validation_errors", None),
    "stop": ("set_stop_validation_errors", "_stop_on_validation_errors", None),
    "fail": ("set_fail_validation_errors", "_fail_on_validation_errors", None),
}
GETTERS = {
    "print": "print_validation_errors", "raise": "raise_validation_errors", "match": "match_validation_errors",
    "stop": "stop_on_validation_errors", "fail": "fail_on_validation_errors",
}
TOKENS = ["print", "no-print", "raise", "no-raise", "match", "no-match", "stop", "no-stop", "fail", "no-fail", "log", "no-log", "collect"]


def domain():
    vals = [None, ""]
    for t in TOKENS:
        vals.append(t)
    for a, b in itertools.permutations(TOKENS, 2):
        if a.replace("no-", "") == b.replace("no-", ""):
            continue
        vals.append(f"{a}, {b}")
    return vals


def class_consts(idx, cls):
    ci = idx.cls(cls)
    out = {}
    for k, v in ci.class_assigns.items():
        if isinstance(v, ast.Constant):
            out[f"{cls}.{k}"] = v.value
    return out


def check(idx, rep, rid, flags):
    consts = class_consts(idx, "ValidationMode")
    rows = 0
    dom = domain()
    for flag in flags:
        setter, attr, default = FLAGS[flag]
        fi = idx.method("ValidationMode", setter)
        rep.analysed(fi)
        bad = None
        for veh in dom:
            it = Interp(idx, types={"self": "ValidationMode"})
            paths = it.run_all(fi, args={"veh": veh}, store=dict(consts))
            rows += 1
            if len(paths) != 1:
                raise AnalysisError(f"ValidationMode.{setter}: not deterministic on a concrete string ({len(paths)} paths)")
            sets = paths[0].sets("self." + attr)
            toks = [] if not veh else [t.strip() for t in veh.split(",")]
            want = False if f"no-{flag}" in toks else (True if flag in toks else default)
            got = sets[-1] if sets else "<not set>"
            if got is not want:
                bad = (veh, got, want)
                break
        key = f"{fi.file}::ValidationMode.{setter} table"
        if bad:
            rep.fail(rid, key, f"validation-mode {bad[0]!r}: {attr} becomes {bad[1]!r}, documented {bad[2]!r} "
                               f"('no-{flag}' → False, '{flag}' → True, otherwise {default}; the token may stand anywhere in the value)", K.where(fi, fi.node))
        else:
            rep.ok(rid, key, f"{len(dom)} validation-mode strings", K.where(fi, fi.node))
        # getter returns the attribute written by the setter
        g = idx.method("ValidationMode", GETTERS[flag])
        rets = [n for n in ast.walk(g.node) if isinstance(n, ast.Return)]
        okg = len(rets) == 1 and ast.unparse(rets[0].value) == "self." + attr
        rep.check(okg, rid, f"{g.file}::ValidationMode.{GETTERS[flag]} getter", f"returns {[ast.unparse(r.value) for r in rets]}, expected self.{attr}", K.where(g, g.node))
        # CsvPath forwards the same-named property
        cg = idx.method("CsvPath", GETTERS[flag])
        rets = [n for n in ast.walk(cg.node) if isinstance(n, ast.Return)]
        okc = len(rets) == 1 and ast.unparse(rets[0].value) == f"self.modes.validation_mode.{GETTERS[flag]}"
        rep.check(okc, rid, f"{cg.file}::CsvPath.{GETTERS[flag]} forward", f"returns {[ast.unparse(r.value) for r in rets]}", K.where(cg, cg.node))
    # _update_settings calls every setter with the mode string
    us = idx.method("ValidationMode", "_update_settings")
    rep.analysed(us)
    called = {K.call_name(c): ast.unparse(c.args[0]) if c.args else None for c in ast.walk(us.node) if isinstance(c, ast.Call)}
    params = [a.arg for a in us.node.args.args][1:]
    for flag in flags:
        setter = FLAGS[flag][0]
        rep.check(called.get(setter) == (params[0] if params else None), rid, f"{us.file}::ValidationMode._update_settings calls {setter}",
                  f"{setter} called with {called.get(setter)}", K.where(us, us.node))
    rep.stats["table_rows"] = rep.stats.get("table_rows", 0) + rows
    rep.stats["exhaustive"] = True


def update_sequence(idx, rep, rid, flags=("print", "raise", "match", "stop", "fail")):
    """ModeController updates the modes of one csvpath more than once (CsvPaths._load_csvpath and then parse()): update() must be a
    function of the metadata — after any number of updates the overrides are what the csvpath's own validation-mode comment says (all
    None without one) and the metadata is what the author wrote.  ValidationMode.update is interpreted 1..3 times in sequence on a model
    controller."""
    from sa.absint import Obj
    fu = idx.method("ValidationMode", "update")
    rep.analysed(fu)
    consts = class_consts(idx, "ValidationMode")
    bad = None
    rows = 0
    for comment in (None, "no-print, fail", "match", "raise, no-stop"):
        meta0 = {} if comment is None else {"validation-mode": comment}

        def cget(i, c, r, a, k):
            return i.store["META"].get(a[0])

        def cset(i, c, r, a, k):
            i.store["META"][a[0]] = a[1]

        def program(it):
            snaps = []
            for _ in range(3):
                it.call_function(fu, {}, "self")
                snaps.append(({f: it.store.get("self." + FLAGS[f][1]) for f in flags}, dict(it.store["META"])))
            return snaps

        it = Interp(idx, types={"self": "ValidationMode"}, inline_all={"ValidationMode"}, inline={"ValidationMode.value"}, unknown_calls="residual",
                    handlers={"self.controller.get": cget, "self.controller.set": cset})
        st = dict(consts)
        st.update({"META": dict(meta0), "self._validation_mode": None, "self.controller": Obj("self.controller")})
        for f in flags:
            st["self." + FLAGS[f][1]] = None
        ps = it.run_program(program, st)
        rows += 1
        if len(ps) != 1 or ps[0].result[0] != "return":
            bad = bad or f"comment {comment!r}: update() is not deterministic on a concrete metadata ({[p.result for p in ps][:2]})"
            continue
        toks = [] if not comment else [t.strip() for t in comment.split(",")]
        want = {f: (False if f"no-{f}" in toks else (True if f in toks else FLAGS[f][2])) for f in flags}
        for n, (got, meta) in enumerate(ps[0].result[1], 1):
            if got != want:
                bad = bad or (f"validation-mode comment {comment!r}: after update #{n} the overrides are {got}, documented {want} "
                              "(the second update happens for every member of a named-paths group)")
            if meta != meta0:
                bad = bad or f"validation-mode comment {comment!r}: update #{n} rewrites the csvpath's metadata to {meta} (the author wrote {meta0})"
    rep.check(bad is None, rid, f"{fu.file}::ValidationMode.update is a function of the metadata", bad or f"{rows} comments x 3 updates", K.where(fu, fu.node))
