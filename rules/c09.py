"""C09 — the archived results of a run say what the run did.

  R1 provenance     what ResultSerializer writes into each member file comes from the member's own state: vars.json ← variables,
                    errors.json ← collected errors, printouts.txt ← all printouts, data.csv/unmatched.csv ← lines/unmatched,
                    meta.json ← identity/index/metadata/runtime data; manifests ← csvpath verdict/completion/fingerprints/folds
  R2 order          ResultsManager.save: close spooler → serialise → register completion (fingerprints see the final bytes)
  R3 all saved      every member is saved once and the run is completed with every member (run-method tables)
  R4 one directory  serializer, registrar, spooler and Result agree on the member directory
  R5 one dialect    data files are written and read back with the same csv dialect
  R6 fingerprints   member fingerprints are sha256 over the bytes of the six member files; run folds are conjunction/sum
"""
import ast

from sa.index import AnalysisError, unparse, walk_no_nested, call_name, stores_in
from sa.absint import Interp, Obj, Residual
from . import common as K
from . import c08, c10, c18, c04


def run(idx, rep, tier):
    rep.explanation = (
        "Def-use provenance by abstract interpretation of ResultSerializer.save_result/_save (each archive file receives the member's own "
        "variables / errors / printouts / lines / unmatched lines), of both registrars' register_complete/metadata_update (manifest keys ← "
        "the csvpath verdict, completion, fingerprints, error count, folds), ordering inside ResultsManager.save, the run-method decision "
        "tables (every member saved once, complete_run with every member), agreement on the member directory and on the csv dialect of "
        "the data files, fingerprint coverage. Byte-level equality and JSON coercion of values are not decided.")
    rep.rule("R1", "archive files and manifest keys are fed from the member's own state")
    rep.rule("R2", "save order: close → serialise → register")
    rep.rule("R3", "every member is saved and the run completed with all members")
    rep.rule("R4", "one member directory for all writers and readers")
    rep.rule("R5", "data files: one csv dialect for writing and reading back")
    rep.rule("R6", "fingerprints cover the six member files with sha256; run folds")
    r1(idx, rep)
    c18.r5(_Proxy(rep, "R2"), rep) if False else _r2(idx, rep)
    c08.serial(idx, rep, "R3", aspects=("protocol", "save-once", "complete-wiring", "result-wiring"))
    c08.byline(idx, rep, "R3", "R3", tier, scenarios=("plain",), aspects=("schedule",))
    c08.byline_collect(idx, rep, "R3")
    # next_paths(collect=True): every line a member yields is appended to that member's result before it is handed to the caller
    from . import runs_model as RM
    fi, paths = RM.serial_rows(idx, "next_paths", collect=True)
    bad = None
    for p in paths:
        ran = [v for kk, v in p.calls("run")]
        failed = {t.split("(")[1].split(")")[0] for t, v in p.choices if t.startswith("run(") and v}
        want = [(f"res{cp[2:]}", f"{cp}.L0") for cp in ran if cp not in failed]
        got = [v for kk, v in p.calls("result.append")]
        ys = [getattr(v, "text", v) for k, kk, v in p.trace if k == "yield"]
        if got != want or ys != [w[1] for w in want]:
            bad = bad or f"members run {ran} (failed {sorted(failed)}): appended {got}, yielded {ys}; documented: each yielded line is first appended to its own member's result ({want})"
    rep.check(bad is None, "R3", f"{fi.file}::CsvPaths.next_paths collects what it yields (collect=True)", bad or f"{len(paths)} paths", K.where(fi, fi.node))
    prep_protocol(idx, rep, "R3")
    # collect_paths: the member collects into its own result's line spooler, and its unmatched lines are handed to the result
    fi, paths = RM.serial_rows(idx, "collect_paths")
    bad = None
    for p in paths:
        for kk, (cp, kw) in p.calls("run-args"):
            ln = kw.get("lines")
            if not (isinstance(ln, Residual) and ln.text == f"res{cp[2:]}.lines"):
                bad = bad or f"member {cp} collects into {ln!r}; documented: its own result's lines (res{cp[2:]}.lines → data.csv)"
        ran_ok = [cp for kk, cp in p.calls("run") if not dict(p.choices).get(f"run({cp}) raises")]
        um = {k2: v for k, k2, v in p.trace if k == "set" and k2.endswith(".unmatched")}
        for cp in ran_ok:
            v = um.get(f"res{cp[2:]}.unmatched")
            if not ((isinstance(v, Residual) and v.text == f"{cp}.unmatched") or v == Obj(f"UNM:{cp}")):
                bad = bad or f"member {cp}: result.unmatched ← {v!r}; documented: the member's own unmatched lines"
    rep.check(bad is None, "R3", f"{fi.file}::CsvPaths.collect_paths feeds each member's own result", bad or f"{len(paths)} paths", K.where(fi, fi.node))
    r4(idx, rep)
    r5(idx, rep)
    unmatched_cells(idx, rep, "R5")
    serial_unmatched(idx, rep, "R5")
    collecting_flag(idx, rep, "R5")
    spooler_table(idx, rep, "R1")
    empty_collection(idx, rep, "R1")
    run_manifest_e2e(idx, rep, "R1")
    member_manifest_e2e(idx, rep, "R1")
    c18.completed_table(idx, rep, "R6")
    r6(idx, rep)
    rep.stats["exhaustive"] = True


class _Proxy:
    def __init__(self, rep, rid):
        self.rep = rep
        self.rid = rid
        self.stats = rep.stats

    def __getattr__(self, n):
        return getattr(self.rep, n)

    def check(self, cond, rid, key, detail="", where=""):
        return self.rep.check(cond, self.rid, key, detail, where)


def _r2(idx, rep):
    c18.r5(idx, _Proxy(rep, "R2"))


def r1(idx, rep):
    fs = idx.method("ResultSerializer", "save_result")
    fv = idx.method("ResultSerializer", "_save")
    rep.analysed(fs, fv)
    it = Interp(idx, types={"self": "ResultSerializer"}, unknown_calls="residual",
                handlers={"self._save": lambda i, c, r, a, k: i.record_call("_save", dict(k))})
    ps = it.run_all(fs, args={"result": Residual("result")})
    kw = ps[0].calls("_save")[0][1] if len(ps) == 1 and ps[0].calls("_save") else {}
    want = {
        "metadata": "result.csvpath.metadata", "variables": "result.variables", "lines": "result.lines", "printouts": "result.get_printouts()",
        "paths_name": "result.paths_name", "file_name": "result.file_name", "identity": "result.identity_or_index", "run_time": "result.run_time",
        "run_dir": "result.run_dir", "run_index": "result.run_index", "unmatched": "result.unmatched",
    }
    bad = []
    for k, w in want.items():
        v = kw.get(k)
        if not (isinstance(v, Residual) and v.text == w):
            bad.append(f"{k} ← {v!r} (expected {w})")
    er = kw.get("errors")
    if not (isinstance(er, Residual) and "e.to_json()" in er.text and "result.errors" in er.text):
        bad.append(f"errors ← {er!r} (expected every collected error as json)")
    rep.check(not bad, "R1", f"{fs.file}::ResultSerializer.save_result wiring", "; ".join(bad), K.where(fs, fs.node))
    # Result.variables / get_printouts / errors are the member's own
    for prop, want, st in (("variables", {"v": 1}, {"self.csvpath.variables": {"v": 1}, "self._csvpath.variables": {"v": 1}}), ("errors", ["E"], {"self._errors": ["E"]})):
        f, ok, d = K.returns(idx, "Result", prop, want, store=st)
        rep.check(ok, "R1", f"{f.file}::Result.{prop}", d, K.where(f, f.node))
    # _save: file ← content
    written = {}

    def h_open(i, c, r, a, k):
        return Obj("file:" + a[0].split("/")[-1])

    def h_dump(i, c, r, a, k):
        written[a[1].name] = a[0]

    class W:
        pass

    def h_writer(i, c, r, a, k):
        return Obj("writer:" + a[0].name)

    def h_rows(i, c, r, a, k):
        written[r.name.replace("writer:", "")] = a[0]

    def h_write(i, c, r, a, k):
        written.setdefault(r.name, []).append(a[0])

    it = Interp(idx, types={"self": "ResultSerializer"}, unknown_calls="residual", isinstance_oracle=lambda i, a, c: False,
                inline={"ResultSerializer._has_printouts"},
                handlers={"open": h_open, "json.dump": h_dump, "csv.writer": h_writer, "self._csv_writer": h_writer, ".writerows": h_rows, ".write": h_write,
                          "os.path.join": lambda i, c, r, a, k: "/".join(str(x) for x in a), "self.get_instance_dir": lambda i, c, r, a, k: "DIR"})
    args = dict(metadata=Obj("METADATA"), runtime_data=Obj("RUNTIME"), errors=["E1", "E2"], variables={"v": 1}, lines=[["a", "b"], ["c", "d"]],
                printouts={"default": ["p1", "p2"], "alerts": ["a1"]}, paths_name="P", file_name="F", identity="one", run_time="T", run_dir="RUN", run_index="0",
                unmatched=[["u", "v"]])
    ps = it.run_all(fv, args=args)
    bad = []
    if len(ps) != 1 or ps[0].result[0] != "return":
        bad.append(f"_save: {[p.result for p in ps]}")
    else:
        if written.get("file:vars.json") != {"v": 1}:
            bad.append(f"vars.json ← {written.get('file:vars.json')!r}")
        if written.get("file:errors.json") != ["E1", "E2"]:
            bad.append(f"errors.json ← {written.get('file:errors.json')!r}")
        meta = written.get("file:meta.json")
        if not (isinstance(meta, dict) and meta.get("identity") == "one" and meta.get("metadata") == Obj("METADATA") and meta.get("runtime_data") == Obj("RUNTIME")
                and meta.get("paths_name") == "P" and meta.get("file_name") == "F" and meta.get("run_index") == "0"):
            bad.append(f"meta.json ← {meta!r}")
        if written.get("file:data.csv") != [["a", "b"], ["c", "d"]]:
            bad.append(f"data.csv ← {written.get('file:data.csv')!r}")
        if written.get("file:unmatched.csv") != [["u", "v"]]:
            bad.append(f"unmatched.csv ← {written.get('file:unmatched.csv')!r}")
        po = "".join(written.get("file:printouts.txt", []))
        if not all(x in po for x in ("default", "p1\n", "p2\n", "alerts", "a1\n")) or po.index("p1") > po.index("p2"):
            bad.append(f"printouts.txt ← {po!r} (every printer's lines, in order)")
    rep.check(not bad, "R1", f"{fv.file}::ResultSerializer._save file contents", "; ".join(bad), K.where(fv, fv.node))
    # printouts are written whenever any stream has lines (named streams too)
    fh = idx.method("ResultSerializer", "_has_printouts")
    bad = None
    for pos, want in ((None, False), ({}, False), ({"default": []}, False), ({"default": [], "alerts": ["x"]}, True), ({"default": ["x"]}, True)):
        it = Interp(idx, types={"self": "ResultSerializer"})
        q = it.run_all(fh, args={"pos": pos})
        if len(q) != 1 or q[0].result != ("return", want):
            bad = bad or f"_has_printouts({pos}) = {q[0].result}"
    rep.check(bad is None, "R1", f"{fh.file}::ResultSerializer._has_printouts table", bad or "", K.where(fh, fh.node))
    # Result.get_printouts returns all streams
    fg = idx.method("Result", "get_printouts")
    rep.analysed(fg)
    # member manifest
    fr = idx.method("ResultRegistrar", "register_complete")
    rep.analysed(fr)
    st = {t.attr: unparse(v) for t, v, s in stores_in(fr.node) if isinstance(t, ast.Attribute) and unparse(t.value) == "mdata"}
    want = {"valid": "self.result.csvpath.is_valid", "completed": "self.completed", "file_fingerprints": "self.file_fingerprints", "error_count": "self.result.errors_count",
            "instance_identity": "self.result.identity_or_index", "run_home": "self.result.run_dir", "instance_home": "self.result.instance_dir",
            "actual_data_file": "self.result.actual_data_file", "origin_data_file": "self.result.origin_data_file", "files_expected": "self.all_expected_files"}
    bad = [f"mdata.{k} ← {st.get(k)} (expected {w})" for k, w in want.items() if st.get(k) != w]
    rep.check(not bad, "R1", f"{fr.file}::ResultRegistrar.register_complete provenance", "; ".join(bad), K.where(fr, fr.node))
    fm = idx.method("ResultRegistrar", "metadata_update")
    rep.analysed(fm)
    st = {}
    for t, v, s in stores_in(fm.node):
        if isinstance(t, ast.Subscript) and isinstance(t.slice, ast.Constant) and unparse(t.value) == "m":
            st[t.slice.value] = unparse(v)
    want = {"valid": "mdata.valid", "completed": "mdata.completed", "file_fingerprints": "mdata.file_fingerprints", "instance_identity": "mdata.instance_identity",
            "actual_data_file": "mdata.actual_data_file", "run_home": "mdata.run_home", "instance_home": "mdata.instance_home", "file_count": "mdata.file_count"}
    bad = [f"m[{k!r}] ← {st.get(k)} (expected {w})" for k, w in want.items() if st.get(k) != w]
    rep.check(not bad, "R1", f"{fm.file}::ResultRegistrar.metadata_update keys", "; ".join(bad), K.where(fm, fm.node))
    frc, ok, d = K.returns(idx, "ResultRegistrar", "completed", "self.result.csvpath.completed")
    rep.check(ok, "R1", f"{frc.file}::ResultRegistrar.completed", d, K.where(frc, frc.node))
    # run manifest
    fR = idx.method("ResultsRegistrar", "register_complete")
    rep.analysed(fR)
    st = {t.attr: unparse(v) for t, v, s in stores_in(fR.node) if isinstance(t, ast.Attribute) and unparse(t.value) == "mdata"}
    want = {"status": "'complete'", "all_completed": "self.all_completed()", "all_valid": "self.all_valid()", "error_count": "self.error_count()", "all_expected_files": "self.all_expected_files()"}
    bad = [f"mdata.{k} ← {st.get(k)} (expected {w})" for k, w in want.items() if st.get(k) != w]
    rep.check(not bad, "R1", f"{fR.file}::ResultsRegistrar.register_complete provenance", "; ".join(bad), K.where(fR, fR.node))
    fM = idx.method("ResultsRegistrar", "metadata_update")
    st = {}
    for t, v, s in stores_in(fM.node):
        if isinstance(t, ast.Subscript) and isinstance(t.slice, ast.Constant) and unparse(t.value) == "m":
            st[t.slice.value] = unparse(v)
    want = {"status": "mdata.status", "all_completed": "mdata.all_completed", "all_valid": "mdata.all_valid", "error_count": "mdata.error_count", "run_home": "mdata.run_home"}
    bad = [f"m[{k!r}] ← {st.get(k)} (expected {w})" for k, w in want.items() if st.get(k) != w]
    rep.check(not bad, "R1", f"{fM.file}::ResultsRegistrar.metadata_update keys", "; ".join(bad), K.where(fM, fM.node))
    # complete_run hands the registrar this run's directory and every result
    fc = idx.method("ResultsManager", "complete_run")
    ctor = [c for c in walk_no_nested(fc.node) if isinstance(c, ast.Call) and call_name(c) == "ResultsRegistrar"]
    kw = K.kw_values(idx, fc, ctor[0]) if len(ctor) == 1 else {}
    rep.check(kw.get("run_dir") == "run_dir" and kw.get("results") == "results" and kw.get("pathsname") == "pathsname", "R1", f"{fc.file}::ResultsManager.complete_run registrar wiring", f"{kw}", K.where(fc, fc.node))


def r4(idx, rep):
    c10.r4(idx, _Proxy(rep, "R4"))
    r4_deref(idx, rep)


def r4_deref(idx, rep):
    c10.r2(idx, K.as_rule(rep, "R4", keep=lambda k: "_deref_paths_name" in k))


def serial_unmatched(idx, rep, rid):
    """a collecting serial run archives, for every member that ran, the unmatched lines that member kept — also when the member's run ended
    with an exception (handled or re-raised): the result is saved with the csvpath's unmatched lines on every path of the run method"""
    from . import runs_model as RM
    for method, collect in (("collect_paths", False), ("next_paths", True)):
        fi, paths = RM.serial_rows(idx, method, collect=collect)
        bad = None
        for p in paths:
            ran = [v for kk, v in RM.events(p) if kk == "run"]
            saved = dict(v for kk, v in RM.events(p) if kk == "saved-unmatched")
            for cp in ran:
                res = "res" + cp[2:]
                if res in saved and saved[res] != Obj(f"UNM:{cp}"):
                    bad = bad or (f"{method} with {[(t, v) for t, v in p.choices if not t.startswith('self.')]}: the result of member {cp} is saved with unmatched lines {saved[res]!r}; "
                                  f"documented: the lines the member kept (UNM:{cp}) — unmatched.csv would be missing or stale")
        rep.check(bad is None, rid, f"{fi.file}::CsvPaths.{method} saves the member's unmatched lines on every path", bad or f"{len(paths)} paths", K.where(fi, fi.node))


def collecting_flag(idx, rep, rid):
    """a run that collects tells its csvpaths so: CsvPath.collecting is what makes the generator keep unmatched lines and the spooler leave
    an (empty) data.csv for a member that matched nothing.  collect() sets it itself; next_paths(collect=True) and the by-line runs drive
    the csvpath differently and must set it before the first line; a run that does not collect must not."""
    from . import runs_model as RM
    for collect in (True, False):
        fi, paths = RM.serial_rows(idx, "next_paths", collect=collect)
        bad = None
        for p in paths:
            for kk, (cp, v) in [(kk, v) for kk, v in RM.events(p) if kk == "run-collecting"]:
                if bool(v) is not collect or isinstance(v, Residual):
                    bad = bad or f"next_paths(collect={collect}): member {cp} runs with collecting={v!r}, documented {collect}"
        rep.check(bad is None, rid, f"{fi.file}::CsvPaths.next_paths(collect={collect}) tells the csvpath whether it collects", bad or f"{len(paths)} paths", K.where(fi, fi.node))
        fb, rows = RM.byline_rows(idx, 2, "plain", collect=collect)
        bad = None
        for agree, p in rows:
            for kk, (cp, v) in [(kk, v) for kk, v in RM.events(p) if kk == "consider-collecting"]:
                if bool(v) is not collect or isinstance(v, Residual):
                    bad = bad or f"next_by_line(collect={collect}): member {cp} is handed a line with collecting={v!r}, documented {collect}"
        rep.check(bad is None, rid, f"{fb.file}::CsvPaths.next_by_line(collect={collect}) tells the csvpaths whether they collect", bad or f"{len(rows)} paths", K.where(fb, fb.node))


def unmatched_cells(idx, rep, rid):
    """unmatched.csv parses back to exactly the unmatched lines only if those lines hold cell text: csv has no way to write None (it comes
    back as ''), so the projection of a short unmatched line under collect() must fill a missing cell with text, not with None.
    Decided on the functions that put lines into CsvPath.unmatched: every one is interpreted on a short and on a blank line."""
    fn = idx.method("CsvPath", "next")
    # the projection functions whose result is appended to self.unmatched, wherever in CsvPath that happens (the step may live in a helper)
    names = set()
    for m in idx.cls("CsvPath").methods.values():
        appends = [n for n in ast.walk(m.node) if isinstance(n, ast.Call) and call_name(n) == "append" and "unmatched" in unparse(n.func)]
        if not appends:
            continue
        for n in appends:
            for c in ast.walk(n):
                if isinstance(c, ast.Call) and c is not n and (K.call_receiver(c) or "") == "self":
                    names.add(call_name(c))
            for arg in n.args:
                if isinstance(arg, ast.Name):
                    for a_ in ast.walk(m.node):
                        if isinstance(a_, ast.Assign) and any(isinstance(t, ast.Name) and t.id == arg.id for t in a_.targets) and isinstance(a_.value, ast.Call) \
                                and (K.call_receiver(a_.value) or "") == "self":
                            names.add(call_name(a_.value))
    names = sorted(names)
    names = [n for n in names if n and idx.has_method("CsvPath", n)]
    bad = None
    for nm in names:
        f = idx.method("CsvPath", nm)
        rep.analysed(f)
        for line in (["4"], [], ["1", "2", "3"]):
            it = Interp(idx, types={"self": "CsvPath"}, unknown_calls="residual", inline={"CsvPath.limit_collection_to"})
            ps = it.run_all(f, args={"line": list(line)}, store={"self." + K.names(idx)["limit"]: [0, 2], "self.limit_collection_to": [0, 2],
                                                                 "self.line_monitor.physical_line_number": 3, "self.identity": "id"})
            for p in ps:
                if p.result[0] == "return" and isinstance(p.result[1], list) and any(not isinstance(x, str) for x in p.result[1]):
                    bad = bad or (f"CsvPath.{nm}({line!r}) under collect(0, 2) keeps {p.result[1]!r}: a cell that is not text is written to unmatched.csv as '' "
                                  "and does not parse back to the line that was kept")
    rep.check(bad is None and bool(names), rid, f"{fn.file}::unmatched lines hold cell text only", bad or f"{names}", K.where(fn, fn.node))


def r5(idx, rep):
    spooler_dialect(idx, rep, "R5")
    r5_writers(idx, rep)


def spooler_dialect(idx, rep, rid):
    """data.csv is read back (by a later member, by a header reference, by a replay) with the dialect CsvLineSpooler wrote it in"""
    fl = idx.method("CsvLineSpooler", "load_if")
    w = [c for c in walk_no_nested(fl.node) if isinstance(c, ast.Call) and call_name(c) == "writer"]
    kw = K.kw_values(idx, fl, w[0]) if len(w) == 1 else None
    fn = idx.method("CsvLineSpooler", "next")
    r = [c for c in walk_no_nested(fn.node) if isinstance(c, ast.Call) and call_name(c) == "DataFileReader"]
    kr = {k: v for k, v in K.kw_values(idx, fn, r[0]).items() if k in ("delimiter", "quotechar")} if len(r) == 1 else None
    rep.check(kw == kr and kw is not None, rid, f"{fl.file}::CsvLineSpooler writer and reader dialect agree",
              f"data.csv is written with {kw or 'the default dialect'} and read back with {kr}: with a non-default delimiter/quotechar the collected lines do not parse back", K.where(fl, fl.node))


def r5_writers(idx, rep):
    seen = []

    def h_writer(i, c, r, a, k):
        seen.append(dict(k))
        return Obj("w")

    it = Interp(idx, types={"self": "ResultSerializer"}, unknown_calls="residual", isinstance_oracle=lambda i, a, c: False,
                inline={"ResultSerializer._save", "ResultSerializer._csv_writer", "ResultSerializer._has_printouts"},
                handlers={"open": lambda i, c, r, a, k: Obj("f"), "json.dump": lambda i, c, r, a, k: None, "csv.writer": h_writer, ".writerows": lambda i, c, r, a, k: None,
                          ".write": lambda i, c, r, a, k: None, "os.path.join": lambda i, c, r, a, k: "/".join(str(x) for x in a), "self.get_instance_dir": lambda i, c, r, a, k: "DIR",
                          "RuntimeDataCollector.collect": lambda i, c, r, a, k: None, "result.get_printouts": lambda i, c, r, a, k: {}})
    fs_ = idx.method("ResultSerializer", "save_result")
    bad = None
    for dl, qc in ((";", "'"), (",", "'"), ("|", '"'), (",", '"'), ("\t", "'")):
        del seen[:]
        st = {"result.csvpath.delimiter": dl, "result.csvpath.quotechar": qc, "result.lines": [["a"]], "result.unmatched": [["u"]], "result.errors": [],
              "result.csvpath": Obj("CP"), "CP.delimiter": dl, "CP.quotechar": qc, "CP.metadata": {}, "result.variables": {}}
        pss = it.run_all(fs_, args={"result": Obj("result")}, store=st)
        # (what a writer is not told it takes from the csv module's defaults)
        eff = [(kw.get("delimiter", ","), kw.get("quotechar", '"')) for kw in seen]
        if not (len(pss) == 1 and pss[0].result[0] == "return" and len(seen) == 2 and all(e == (dl, qc) for e in eff)):
            bad = bad or (f"csv writers created with {list(seen)} for a member with delimiter {dl!r} and quotechar {qc!r}: unmatched.csv / data.csv are read back with the member's "
                          "dialect, so a cell holding the delimiter, a quote or a newline does not parse back to the cell that was kept")
    rep.check(bad is None, "R5", f"{fs_.file}::ResultSerializer.save_result writes data files in the member's dialect (in context)", bad or "5 dialects", K.where(fs_, fs_.node))


def spooler_table(idx, rep, rid):
    """CsvLineSpooler.append writes the line as it is when appended (no buffering of references that a later rewrite could change)"""
    fa = idx.method("CsvLineSpooler", "append")
    fc = idx.method("CsvLineSpooler", "close")
    rep.analysed(fa, fc)
    import copy as _copy
    written = []

    def load_if(i, c, r, a, k):
        i.store["self.writer"] = Obj("writer")
        i.store["self.sink"] = Obj("sink")

    def rows(i, c, r, a, k):
        written.extend(_copy.deepcopy(list(a[0])))

    def row(i, c, r, a, k):
        written.append(_copy.deepcopy(a[0]))

    it = Interp(idx, types={"self": "CsvLineSpooler"}, unknown_calls="residual", inline_all={"CsvLineSpooler", "LineSpooler"},
                handlers={"self.load_if": load_if, "writer.writerows": rows, "writer.writerow": row, "sink.close": lambda i, c, r, a, k: None, "sink.flush": lambda i, c, r, a, k: None})
    st = K.instance_store(idx, "CsvLineSpooler")
    st.update(K.instance_store(idx, "LineSpooler"))
    st.update({"self.writer": None, "self.sink": None, "self._count": 0, "self.closed": False})

    def program(it):
        l1 = ["a", "b"]
        it.call_function(fa, {"line": l1}, "self")
        l1[1] = "REWRITTEN-LATER"          # a sibling csvpath rewrites the shared line in place after it was collected
        it.call_function(fa, {"line": ["c", "d"]}, "self")
        it.call_function(fc, {}, "self")
        return None

    ps = it.run_program(program, st)
    ok = len(ps) == 1 and ps[0].result[0] == "return" and written == [["a", "b"], ["c", "d"]]
    rep.check(ok, rid, f"{fa.file}::CsvLineSpooler.append writes the line at append time",
              f"data.csv would hold {written}; the run collected [['a', 'b'], ['c', 'd']] (a line rewritten after it was collected must not change what was archived)", K.where(fa, fa.node))


def empty_collection(idx, rep, rid):
    """a collecting member that matched no line still has data — the empty data.csv — by the time it is saved: the next member
    (source-mode: preceding) and replays read it back as no lines.  (1) ResultsManager.save closes the member's spooler whatever its
    length (a spooler with no lines is falsy); (2) CsvLineSpooler.close opens the data file when nothing was written in a collecting
    run, and not in a run that does not collect (fast_forward)"""
    fsave = idx.method("ResultsManager", "save")
    fc = idx.method("CsvLineSpooler", "close")
    rep.analysed(fsave, fc)

    def iso(interp, args, call):
        return True  # the member's lines are a LineSpooler

    bad = None
    for nlines in (0, 2):
        it = Interp(idx, types={"self": "ResultsManager", "spool": "CsvLineSpooler"}, unknown_calls="residual", isinstance_oracle=iso,
                    domains={"self._csvpaths": [Obj("cps")]},
                    handlers={"spool.close": lambda i, c, r, a, k: i.record_call("close"), "self.do_transfers_if": lambda i, c, r, a, k: None,
                              "ResultSerializer": lambda i, c, r, a, k: Obj("rs"), "rs.save_result": lambda i, c, r, a, k: i.record_call("save_result"),
                              "ResultRegistrar": lambda i, c, r, a, k: Obj("rr"), "rr.register_complete": lambda i, c, r, a, k: None})
        ps = it.run_all(fsave, args={"result": Obj("res")}, store={"res.lines": Obj("spool"), "spool._count": nlines, "spool.sink": [None] * nlines})
        for p in ps:
            ev = [kk for k, kk, v in p.trace if k == "call" and kk in ("close", "save_result")]
            if p.result[0] != "return" or ev != ["close", "save_result"]:
                bad = bad or f"member with {nlines} collected line(s): save does {ev} ({p.result[0]}); documented: close the spooler, then serialise — also for a member that collected nothing"
    rep.check(bad is None, rid, f"{fsave.file}::ResultsManager.save closes the spooler whatever its length", bad or "", K.where(fsave, fsave.node))
    bad = None
    for collecting, wrote in ((True, False), (False, False), (True, True)):
        opened = []

        def load_if(i, c, r, a, k):
            opened.append(1)
            i.store["self.writer"] = Obj("writer")
            i.store["self.sink"] = Obj("sink")

        it = Interp(idx, types={"self": "CsvLineSpooler"}, unknown_calls="residual", inline_all={"CsvLineSpooler", "LineSpooler"},
                    handlers={"self.load_if": load_if, "sink.close": lambda i, c, r, a, k: i.record_call("sink.close"), "sink.flush": lambda i, c, r, a, k: None})
        st = K.instance_store(idx, "CsvLineSpooler")
        st.update(K.instance_store(idx, "LineSpooler"))
        st.update({"self.writer": Obj("writer") if wrote else None, "self.sink": Obj("sink") if wrote else None, "self._count": 2 if wrote else 0, "self.closed": False,
                   "self.result": Obj("res"), "res.csvpath": Obj("cp"), "cp.collecting": collecting})
        ps = it.run_all(fc, store=st)
        want_open = collecting and not wrote
        for p in ps:
            if p.result[0] != "return" or bool(opened) != want_open:
                bad = bad or (f"collecting={collecting}, lines written={wrote}: close() {'opens' if opened else 'does not open'} the data file ({p.result[0]}); documented: "
                              f"{'an empty data.csv is left for a collecting run that matched nothing' if want_open else 'no file is created'}")
            if (wrote or want_open) and not p.calls("sink.close"):
                bad = bad or f"collecting={collecting}, lines written={wrote}: the data file is left open"
    rep.check(bad is None, rid, f"{fc.file}::CsvLineSpooler.close leaves an empty data.csv for an empty collection", bad or "", K.where(fc, fc.node))


def r6(idx, rep):
    ff = idx.method("ResultRegistrar", "file_fingerprints")
    rep.analysed(ff)
    want = sorted(["data.csv", "meta.json", "unmatched.csv", "printouts.txt", "errors.json", "vars.json"])
    from . import store_model as SMo
    # coverage: with all six member files on the model disk, every one of them is fingerprinted
    fsall = [SMo.MFS()]
    for nm in want + ["manifest.json", "stray.tmp"]:
        fsall[0].put(f"INST/{nm}", f"content of {nm}")
    _, psa = K.sym_result(idx, "ResultRegistrar", "file_fingerprints", handlers=SMo.handlers(fsall), inline={"ResultRegistrar._fingerprint"}, store={"self.result_path": "INST"})
    names = sorted(psa[0].result[1]) if len(psa) == 1 and psa[0].result[0] == "return" and isinstance(psa[0].result[1], dict) else None
    rep.check(names == want, "R6", f"{ff.file}::ResultRegistrar.file_fingerprints coverage", f"with all six member files present fingerprints cover {names}, documented {want}", K.where(ff, ff.node))
    fsx = [SMo.MFS()]
    present = {"data.csv": "a,b\n", "meta.json": "{}", "errors.json": "[]", "vars.json": "{}"}
    for nm, c in present.items():
        fsx[0].put(f"INST/{nm}", c)
    ffp, psf = K.sym_result(idx, "ResultRegistrar", "file_fingerprints", handlers=SMo.handlers(fsx), inline={"ResultRegistrar._fingerprint"}, store={"self.result_path": "INST"})
    wantfp = {nm: SMo.MFS.sha(c) for nm, c in present.items()}
    rep.check(len(psf) == 1 and psf[0].result == ("return", wantfp), "R6", f"{ffp.file}::ResultRegistrar.file_fingerprints table",
              f"{psf[0].result if psf else None}; documented: sha256 of each member file that exists ({sorted(wantfp)})", K.where(ffp, ffp.node))
    fsb = [SMo.MFS()]
    fsb[0].put("D/data.csv", "a,b\n1,2\n")
    fp, ps = K.sym_result(idx, "ResultRegistrar", "_fingerprint", args={"path": "D/data.csv"}, handlers=SMo.handlers(fsb))
    fp2, ps2 = K.sym_result(idx, "ResultRegistrar", "_fingerprint", args={"path": "D/none.csv"}, handlers=SMo.handlers(fsb))
    rep.check(len(ps) == 1 and ps[0].result == ("return", SMo.MFS.sha("a,b\n1,2\n")) and ps2[0].result == ("return", None), "R6",
              f"{fp.file}::ResultRegistrar._fingerprint sha256 of the bytes", f"{ps[0].result} / {ps2[0].result}", K.where(fp, fp.node))
    # run folds: interpreted over every member list of <= 3 (members with and without collected lines)
    for meth, key, kind in (("all_completed", "csvpath.completed", "all"), ("all_valid", "csvpath.is_valid", "all"), ("error_count", "errors_count", "sum")):
        f, ok, d, _ = K.fold_table(idx, "ResultsRegistrar", meth, key, kind=kind)
        rep.analysed(f)
        rep.check(ok, "R6", f"{f.file}::ResultsRegistrar.{meth} fold", d, K.where(f, f.node))
    fe = idx.method("ResultsRegistrar", "error_count")
    it = Interp(idx, types={"self": "ResultsRegistrar"}, unknown_calls="residual")
    ps = it.run_all(fe, store={"self.results": [Obj("r0"), Obj("r1")], "r0.errors_count": 2, "r1.errors_count": 3})
    rep.check(len(ps) == 1 and ps[0].result == ("return", 5), "R6", f"{fe.file}::ResultsRegistrar.error_count sum", f"{ps[0].result}", K.where(fe, fe.node))
    fr, ok, d = K.returns(idx, "Result", "errors_count", 2, store={"self._errors": ["a", "b"]})
    rep.check(ok, "R6", f"{fr.file}::Result.errors_count", d, K.where(fr, fr.node))


def run_manifest_e2e(idx, rep, rid):
    """ResultsRegistrar.register_complete interpreted end to end — through the real ResultsMetadata/Metadata accessors, distribute_update and
    metadata_update — onto a model file system: the run manifest on disk then says status complete and carries the folds' values"""
    import datetime as _dt
    import json as _json
    from . import store_model as SMo
    fi = idx.method("ResultsRegistrar", "register_complete")
    rep.analysed(fi, idx.method("ResultsRegistrar", "metadata_update"), idx.method("Registrar", "distribute_update"))
    bad = None
    for ac, av, ec in ((True, True, 0), (False, True, 2), (True, False, 1)):
        fsb = [SMo.MFS()]
        fsb[0].dirs.add("RUN")
        h = SMo.handlers(fsb)
        now = _dt.datetime(2026, 1, 2, 3, 4, 5, tzinfo=_dt.timezone.utc)
        h.update({"datetime.now": lambda i, c, r, a, k: now, "datetime.datetime.now": lambda i, c, r, a, k: now,
                  "parser.parse": lambda i, c, r, a, k: _dt.datetime.fromisoformat(a[0]),
                  "self.all_completed": lambda i, c, r, a, k, ac=ac: ac, "self.all_valid": lambda i, c, r, a, k, av=av: av, "self.error_count": lambda i, c, r, a, k, ec=ec: ec,
                  "self.all_expected_files": lambda i, c, r, a, k: True})
        mdcls = {f"{owner}.{m}" for cn in ("ResultsMetadata", "Metadata") for owner in ("ResultsMetadata", cn) for m in list(idx.cls(cn).methods) + list(idx.cls(cn).properties)}
        it = Interp(idx, types={"self": "ResultsRegistrar", "md": "ResultsMetadata"}, inline_all={"ResultsRegistrar", "Registrar"}, inline=mdcls,
                    handlers=h, unknown_calls="residual")
        st = K.instance_store(idx, "ResultsRegistrar")
        st.update(K.instance_store(idx, "ResultsMetadata", "md"))
        st.update({"md._time": now, "md._uuid": "U", "md.run_home": "RH", "md.named_results_name": "p", "md.named_paths_name": "p", "md.named_file_name": "f",
                   "self.listeners": [Residual("self")], "self.manifest": {"run_home": "RH", "named_paths_name": "p", "named_file_name": "f"},
                   "self.manifest_path": "RUN/manifest.json", "self.results": [Obj("r0")], "r0.by_line": False})
        ps = it.run_all(fi, args={"mdata": Obj("md")}, store=st)
        if len(ps) != 1:
            raise AnalysisError(f"C09.{rid}: register_complete is not deterministic on the concrete model ({[p.choices for p in ps][:2]}); the model file system is shared between paths")
        for p in ps:
            if p.result[0] != "return":
                bad = bad or f"register_complete ends in {p.result}"
                continue
            raw = fsb[0].get("RUN/manifest.json") if "RUN/manifest.json" in fsb[0].files else None
            try:
                m = _json.loads(raw) if isinstance(raw, str) else raw
            except ValueError:
                m = None
            want = {"status": "complete", "all_completed": ac, "all_valid": av, "error_count": ec}
            got = {k: (m or {}).get(k, "<absent>") for k in want} if isinstance(m, dict) else None
            if got != want:
                bad = bad or f"members fold to all_completed={ac}, all_valid={av}, error_count={ec}: the run manifest on disk has {got}, documented {want}"
    rep.check(bad is None, rid, f"{fi.file}::ResultsRegistrar.register_complete writes the run manifest", bad or "3 fold outcomes", K.where(fi, fi.node))


def member_manifest_e2e(idx, rep, rid):
    """ResultRegistrar.register_complete interpreted end to end (real ResultMetadata accessors, distribute_update, metadata_update) onto a
    model file system: the member manifest on disk carries this member's verdict, completion, fingerprints, identity and actual input"""
    import datetime as _dt
    import json as _json
    from . import store_model as SMo
    fi = idx.method("ResultRegistrar", "register_complete")
    rep.analysed(fi, idx.method("ResultRegistrar", "metadata_update"))
    bad = None
    for valid, completed, preceding in ((True, True, False), (False, True, False), (True, False, True)):
        fsb = [SMo.MFS()]
        fsb[0].dirs.add("RUN/one")
        h = SMo.handlers(fsb)
        now = _dt.datetime(2026, 1, 2, 3, 4, 5, tzinfo=_dt.timezone.utc)
        fps = {"data.csv": "FP1", "meta.json": "FP2"}
        h.update({"datetime.now": lambda i, c, r, a, k: now, "datetime.datetime.now": lambda i, c, r, a, k: now, "uuid4": lambda i, c, r, a, k: "U",
                  "parser.parse": lambda i, c, r, a, k: _dt.datetime.fromisoformat(a[0]),
                  "self.result_serializer.get_run_dir_name_from_datetime": lambda i, c, r, a, k: "RUNNAME",
                  "ResultMetadata": lambda i, c, r, a, k: Obj("md")})
        mcls = [cn for cn in ("ResultMetadata", "Metadata") if idx.has_cls(cn)]
        mdcls = {f"{cn}.{m}" for cn in mcls for m in list(idx.cls(cn).methods) + list(idx.cls(cn).properties)}
        it = Interp(idx, types={"self": "ResultRegistrar", "md": "ResultMetadata"}, inline_all={"Registrar"}, inline=mdcls | {"ResultRegistrar.metadata_update", "ResultRegistrar.distribute_update"},
                    handlers=h, unknown_calls="residual")
        st = K.instance_store(idx, "ResultRegistrar")
        st.update(K.instance_store(idx, "ResultMetadata", "md"))
        st.update({"md._time": now, "md._uuid": "U", "self.listeners": [Residual("self")], "self.manifest": {}, "self.manifest_path": "RUN/one/manifest.json",
                   "self.archive_name": "archive", "self.file_fingerprints": dict(fps), "self.completed": completed, "self.all_expected_files": True,
                   "self.result": Obj("res"), "res.paths_name": "p", "res.run_time": "T", "res.by_line": False, "res.source_mode_preceding": preceding, "res.run_dir": "RUN",
                   "res.instance_dir": "RUN/one", "res.identity_or_index": "one", "res.run_index": "0", "res.file_name": "f", "res.errors_count": 2,
                   "res.csvpath": Obj("cp"), "cp.is_valid": valid, "cp.transfers": None, "res.actual_data_file": "ACTUAL", "res.origin_data_file": "ORIGIN"})
        ps = it.run_all(fi, args={"mdata": None}, store=st)
        if len(ps) != 1:
            raise AnalysisError(f"C09.{rid}: ResultRegistrar.register_complete is not deterministic on the concrete model ({[p.choices for p in ps][:2]})")
        p = ps[0]
        if p.result[0] != "return":
            bad = bad or f"register_complete ends in {p.result}"
            continue
        raw = fsb[0].get("RUN/one/manifest.json") if "RUN/one/manifest.json" in fsb[0].files else None
        try:
            m = _json.loads(raw) if isinstance(raw, str) else raw
        except ValueError:
            m = None
        want = {"valid": valid, "completed": completed, "file_fingerprints": fps, "instance_identity": "one", "actual_data_file": "ACTUAL", "run_home": "RUN",
                "source_mode_preceding": preceding}
        got = {k: (m or {}).get(k, "<absent>") for k in want} if isinstance(m, dict) else None
        if got != want:
            bad = bad or f"member one (valid={valid}, completed={completed}): the member manifest on disk has {got}, documented {want}"
    rep.check(bad is None, rid, f"{fi.file}::ResultRegistrar.register_complete writes the member manifest", bad or "3 members", K.where(fi, fi.node))


def prep_protocol(idx, rep, rid):
    """breadth-first preparation: reset → name the run → start_run → one Result per member (own csvpath, own index) → add_named_result"""
    # breadth-first preparation: reset → name the run → start_run → one Result per member (own csvpath, own index) → add_named_result
    fpz = idx.method("CsvPaths", "_prep_csvpath_results")
    rep.analysed(fpz)
    made = []
    it = Interp(idx, types={"self": "CsvPaths"}, unknown_calls="residual", inline_all={"CsvPaths"},
                domains={"self.current_run_time": [Residual("RUNTIME")]},
                handlers={"self.clear_run_coordination": lambda i, c, r, a, k: i.record_call("clear"), "self.run_time_str": lambda i, c, r, a, k: (i.record_call("name"), "RUNDIR")[1],
                          "self.results_manager.start_run": lambda i, c, r, a, k: i.record_call("start_run", dict(k)),
                          "Result": lambda i, c, r, a, k: (made.append(dict(k)), i.record_call("Result"), Obj(f"res{len(made) - 1}"))[2],
                          "self.results_manager.add_named_result": lambda i, c, r, a, k: i.record_call("add", a[0])})
    objs = [[Obj("cp0"), ["l0"]], [Obj("cp1"), ["l1"]]]
    psz = it.run_all(fpz, args={"csvpath_objects": objs, "filename": "F", "pathsname": "P"})
    ev = [kk for k, kk, v in psz[0].trace if k == "call" and kk in ("clear", "name", "start_run", "Result", "add")] if len(psz) == 1 else None
    if ev and ev[0] != "clear" and K.reset_before_every_call(idx, fpz, "clear_run_coordination"):
        ev = ["clear"] + ev   # (the reset stands in the callers, before the preparation is entered)
    okz = ev == ["clear", "name", "start_run", "Result", "add", "Result", "add"]
    if okz:
        sr = psz[0].calls("start_run")[0][1]
        okz = sr == {"run_dir": "RUNDIR", "pathsname": "P", "filename": "F"}
        for j, kw in enumerate(made):
            okz = okz and kw.get("csvpath") == Obj(f"cp{j}") and kw.get("run_index") == j and kw.get("run_dir") == "RUNDIR" and kw.get("by_line") is True and kw.get("paths_name") == "P" and kw.get("file_name") == "F"
        fin = psz[0].result
    rep.check(okz, rid, f"{fpz.file}::CsvPaths._prep_csvpath_results protocol", f"events {ev}, results {made}", K.where(fpz, fpz.node))


