"""Exhaustive decision table of Matcher.matches by abstract interpretation (shared by C01.R3, C05.R4, C13.R1/R3).

Abstract world: 1..3 match components; each evaluation of a component returns a vote in
{True, False, None} and may fire one control effect in {none, stop, skip}; memoised votes
(the onmatch look-ahead writes them) in {None, True, False}; logic mode AND/OR.
For every path the extracted behaviour is compared with the documented behaviour:
  * components are evaluated left to right, each at most once, a memoised vote is used as is;
  * after stop()/skip() fired no later component is evaluated;
  * skip: the line does not match and the flag is consumed (reset) before returning, wherever the
    skip stands — so the next line proceeds normally;
  * stop: the line can only match when the stopping component was the last one;
  * otherwise AND: no vote is False / OR: some vote is True (None counts as a positive vote);
  * every return is preceded by clear_errors() (nothing collected is lost);
  * a blank last line only activates last() components and reports True to the caller, which
    never returns that line.
"""
import itertools

from sa.absint import Raised, Interp, Obj, Residual
from sa.index import AnalysisError

BLANK = "self.csvpath.line_monitor.is_last_line_and_blank(self.line)"


def _spec(n, AND, memo, choices):
    """documented behaviour: returns (result, evaluated_indexes, skip_consumed)"""
    votes = []
    evaluated = []
    stopped = False
    skipped = False
    stop_at = None
    ci = iter(choices)
    for i in range(n):
        if stopped or skipped:
            break
        if memo[i] is not None:
            votes.append(memo[i])
            continue
        vote, eff = next(ci)
        evaluated.append(i)
        votes.append(False if vote is False else True)
        if eff == "stop":
            stopped = True
            stop_at = i
        elif eff == "skip":
            skipped = True
    if skipped:
        return False, evaluated
    if stopped and stop_at != n - 1:
        # later components exist and are not evaluated: no match
        # (memoised later votes do not rescue the line: the run is halting)
        return False, evaluated
    if AND:
        return all(v is not False for v in votes), evaluated
    return any(v is True for v in votes), evaluated


def run_model(idx, max_components=3, with_memo=True):
    """yields dict rows: config, path, expected, observed"""
    fi = idx.method("Matcher", "matches")
    rows = []
    for n in range(1, max_components + 1):
        memo_space = itertools.product([None, True, False], repeat=n) if with_memo and n <= 2 else [tuple([None] * n)]
        for memo in memo_space:
            for AND in (True, False):
                state = {"evaluated": []}

                def comp_matches(interp, call, recv, args, kwargs, state=state):
                    name = recv.name if isinstance(recv, Obj) else str(recv)
                    state_list = interp.path.__dict__.setdefault("evaluated", [])
                    state_list.append(name)
                    vote = interp.choose(f"{name}.vote", [True, False, None], memo=False)
                    eff = interp.choose(f"{name}.effect", ["none", "stop", "skip"], memo=False)
                    if eff == "stop":
                        interp.store["self.csvpath.stopped"] = True
                    elif eff == "skip":
                        interp.store["self.skip"] = True
                    interp.path.__dict__.setdefault("fired", []).append((vote, eff))
                    return vote

                def clear_errors(interp, call, recv, args, kwargs):
                    interp.record_call("clear_errors")

                def do_lasts(interp, call, recv, args, kwargs):
                    interp.record_call("_do_lasts")

                it = Interp(idx, types={"self": "Matcher"}, inline_all={"Matcher"},
                            domains={BLANK: [False], "self._AND": [AND], "self.csvpath": [Obj("self.csvpath")],
                                     "self.csvpath.explain": [False]},
                            handlers={".matches": comp_matches, "self.clear_errors": clear_errors, "self._do_lasts": do_lasts})
                store = {
                    "self.expressions": [[Obj(f"e{i}"), memo[i]] for i in range(n)],
                    "self.csvpath.stopped": False,
                    "self.skip": False,
                }
                for p in it.run_all(fi, store=store):
                    rows.append(dict(n=n, AND=AND, memo=memo, path=p, fi=fi))
    return fi, rows


def judge(row):
    """list of (aspect, ok, detail) for one row"""
    p = row["path"]
    n, AND, memo = row["n"], row["AND"], row["memo"]
    fired = p.__dict__.get("fired", [])
    evaluated = p.__dict__.get("evaluated", [])
    out = []
    kind, val = p.result
    if kind != "return":
        return [("returns", False, f"path ends in {kind} {val}")]
    want, want_eval = _spec(n, AND, memo, fired + [(True, "none")] * 8)
    cfg = f"n={n} {'AND' if AND else 'OR'} memo={list(memo)} fired={fired}"
    # order / at most once / nothing after stop-skip
    names = [f"e{i}" for i in want_eval]
    out.append(("order", evaluated == names, f"{cfg}: components evaluated {evaluated}, documented {names} (left to right, each once, none after stop/skip fired)"))
    if evaluated == names:
        out.append(("verdict", val is want, f"{cfg}: returns {val!r}, documented {want!r}"))
    # skip consumed
    if any(e == "skip" for _, e in fired):
        final_skip = p.sets("self.skip")
        out.append(("skip-consumed", bool(final_skip) and final_skip[-1] is False,
                    f"{cfg}: the skip flag is left set when the line ends (stores {final_skip}); it would leak into the next line"))
    # clear_errors before return
    tr = [k for k in p.trace if k[0] == "call"]
    out.append(("clear-errors", any(k[1] == "clear_errors" for k in tr), f"{cfg}: returns without clear_errors(): collected errors are lost for this line"))
    return out


def blank_last_rows(idx):
    """the blank-last-line branch: only _do_lasts and clear_errors, returns True, evaluates no component"""
    fi = idx.method("Matcher", "matches")

    def comp_matches(interp, call, recv, args, kwargs):
        interp.record_call("component.matches")
        return interp.choose("vote", [True, False, None], memo=False)

    def rec(name):
        def h(interp, call, recv, args, kwargs):
            interp.record_call(name)
        return h

    it = Interp(idx, types={"self": "Matcher"},
                domains={BLANK: [True], "self._AND": [True, False], "self.csvpath": [Obj("self.csvpath")], "self.csvpath.explain": [False]},
                handlers={".matches": comp_matches, "self.clear_errors": rec("clear_errors"), "self._do_lasts": rec("_do_lasts")})
    store = {"self.expressions": [[Obj("e0"), None], [Obj("e1"), None]], "self.csvpath.stopped": False, "self.skip": False}
    return fi, it.run_all(fi, store=store)


def do_lasts_rows(idx, n=3):
    """Matcher._do_lasts over n components on the blank last line: each activation may fire stop or skip.
    Yields (path, activated names, fired effects)."""
    fi = idx.method("Matcher", "_do_lasts")

    def activate(interp, call, recv, args, kwargs):
        e = args[0] if args else None
        name = e.name if isinstance(e, Obj) else str(e)
        interp.path.__dict__.setdefault("activated", []).append(name)
        eff = interp.choose(f"{name}.effect", ["none", "stop", "skip", "raise"], memo=False)
        if eff == "stop":
            interp.store["self.csvpath.stopped"] = True
        elif eff == "skip":
            interp.store["self.skip"] = True
        interp.path.__dict__.setdefault("fired", []).append(eff)
        if eff == "raise":
            # the last()'s consequence faults outside Function.matches' own handler (e.g. the right side of `last() -> @x = int(@y)`)
            raise Raised("ValueError")

    def handled(interp, call, recv, args, kwargs):
        # (an error policy without 'raise': the error is recorded and the line goes on)
        interp.path.__dict__.setdefault("handled", []).append(recv.name if isinstance(recv, Obj) else str(recv))
        return None

    it = Interp(idx, types={"self": "Matcher"}, inline_all={"Matcher"},
                domains={"self.csvpath": [Obj("self.csvpath")]},
                handlers={"self._find_and_actvate_lasts": activate, ".handle_error": handled, "traceback.format_exc": lambda i, c, r, a, k: "TRACE"})
    store = {"self.expressions": [[Obj(f"e{i}"), None] for i in range(n)], "self.csvpath.stopped": False, "self.skip": False}
    out = []
    for p in it.run_all(fi, store=store):
        out.append((p, p.__dict__.get("activated", []), p.__dict__.get("fired", [])))
    return fi, out
