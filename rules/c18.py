"""C18 — a run that aborts still leaves a truthful, readable record.

  R1 save before re-raise   serial and breadth-first decision tables over every abort point: every started member is
                            saved exactly once before the exception leaves the run method; the handler gets the failing member
  R2 never 'complete'       complete_run is not reached on an aborting path; status 'complete' is stored only by
                            ResultsRegistrar.register_complete
  R3 stores untouched       no path in the call graph from the run methods to add_named_file / add_named_paths / remove_*
  R4 next run starts clean  run-scoped state (run time, run dir name, signals) is reset on entry, before the run is named
  R5 spooler closed         ResultsManager.save closes the line spooler before serialising and registers completion last
  R6 the error is recorded  the handler collects the error whatever its type and records the line number (C05.R1/R6)
"""
import ast

from sa.index import AnalysisError, unparse, walk_no_nested, call_name
from sa.absint import Interp, Obj, Residual
from . import common as K
from . import runs_model as RM
from . import runs_judge as RJ
from . import c08, c10, c05


def run(idx, rep, tier):
    rep.explanation = (
        "Decision tables by abstract interpretation of collect_paths/fast_forward_paths/next_paths (2 members, failure of load or run at "
        "either member, handler re-raises or not) and of next_by_line (2 members x 2 lines, a consideration raises at any point): on every "
        "aborting path each started member is saved exactly once before the re-raise and complete_run is never reached; 'complete' literal "
        "ownership; call-graph reachability from the run methods to the named-files/named-paths mutators; run-scoped state reset before "
        "the run directory is named; order inside ResultsManager.save; the error handler's collect/line-number tables. The contents of "
        "errors.json for a given fault are not decided.")
    rep.rule("R1", "every started member is saved before the exception is re-raised")
    rep.rule("R2", "an aborted run is never marked complete")
    rep.rule("R3", "run methods cannot reach the named-files / named-paths mutators")
    rep.rule("R4", "run-scoped state is reset before a run is named")
    rep.rule("R5", "save: close spooler → serialise → register completion")
    rep.rule("R6", "the aborting error is collected with its line number")
    c08.serial(idx, rep, "R1", aspects=("protocol", "outcome", "save-once", "handler-wiring"))
    c08.byline(idx, rep, "R1", "R1", tier, scenarios=("abort", "skipall"), aspects=("schedule", "outcome"))
    r2(idx, rep)
    abort_marker(idx, rep)
    completed_table(idx, rep, "R2")
    r3(idx, rep)
    c10.run_state(idx, rep, "R4")
    K.mutable_defaults(idx, rep, "R4")
    r5(idx, rep)
    r6(idx, rep)
    rep.stats["exhaustive"] = True


def r2(idx, rep):
    # the literal 'complete' as a status is stored only in ResultsRegistrar.register_complete
    sites = []
    for fi in idx.all_funcs("csvpath/managers/"):
        for n in walk_no_nested(fi.node):
            if isinstance(n, ast.Assign) and isinstance(n.value, ast.Constant) and n.value.value == "complete":
                sites.append((fi, n))
    for fi, n in sites:
        rep.check(K.owner_of(idx, fi, {"ResultsRegistrar.register_complete"}) is not None, "R2", f"{fi.file}::{fi.qual} stores status 'complete'",
                  "only the run registrar's register_complete may mark a run complete", K.where(fi, n))
    rep.floor("R2", 1, "'complete' status stores")
    # complete_run is not reached from a handler or a finally block in the run methods (directly or through a private helper)
    ci = idx.cls("CsvPaths")
    completers = {"complete_run"}
    grew = True
    while grew:
        grew = False
        for mn, mf in ci.methods.items():
            if mn.startswith("_") and not mn.startswith("__") and mn not in completers and any(
                    isinstance(c, ast.Call) and call_name(c) in completers for c in walk_no_nested(mf.node)):
                completers.add(mn)
                grew = True
    for m in ("collect_paths", "fast_forward_paths", "next_paths", "next_by_line"):
        fi = idx.method("CsvPaths", m)
        bad = None
        for fx in [fi] + [ci.methods[h] for h in sorted(completers) if h in ci.methods]:
            for t in [n for n in walk_no_nested(fx.node) if isinstance(n, ast.Try)]:
                for blk in [h.body for h in t.handlers] + [t.finalbody]:
                    for s_ in blk:
                        for c in ast.walk(s_):
                            if isinstance(c, ast.Call) and call_name(c) in completers:
                                bad = f"complete_run is reached from an exception handler or finally block ({fx.qual})"
        calls = [c for c in walk_no_nested(fi.node) if isinstance(c, ast.Call) and call_name(c) in completers]
        rep.check(bad is None and len(calls) == 1, "R2", f"{fi.file}::CsvPaths.{m} complete_run only on the normal path", bad or f"{len(calls)} call sites", K.where(fi, fi.node))
    # member manifests: completed comes from the csvpath, not a constant
    fr, ok, d = K.returns(idx, "ResultRegistrar", "completed", "self.result.csvpath.completed")
    rep.check(ok, "R2", f"{fr.file}::ResultRegistrar.completed source", d, K.where(fr, fr.node))


def completed_table(idx, rep, rid):
    """CsvPath.completed: true exactly when the path has a scanner and a line monitor and its current line is the scan's last line"""
    fc = idx.method("CsvPath", "completed")
    rep.analysed(fc)
    IS_LAST = "self.scanner.is_last(self.line_monitor.physical_line_number)"
    bad = None
    markers = abort_markers(idx)
    n = 0
    for sc in (Obj("sc"), None):
        for lm in (Obj("lm"), None):
            for last in (True, False):
                for aborted in ((False, True) if markers else (False,)):
                    n += 1
                    it = Interp(idx, types={"self": "CsvPath"}, unknown_calls="residual", handlers={"sc.is_last": lambda i, c, r, a, k, last=last: last})
                    st = {"self.scanner": sc, "self.line_monitor": lm, "self._line_monitor": lm, "lm.physical_line_number": 4}
                    for m in markers:
                        st["self." + m] = aborted
                    ps = it.run_all(fc, store=st)
                    want = sc is not None and lm is not None and last and not aborted
                    if len(ps) != 1 or ps[0].result != ("return", want):
                        bad = bad or (f"scanner={'set' if sc else None}, line monitor={'set' if lm else None}, current line is the scan's last={last}, aborted by a raising policy={aborted}: "
                                      f"completed is {[p.result for p in ps][:2]}, documented {want}")
    rep.check(bad is None, rid, f"{fc.file}::CsvPath.completed table", bad or f"{n} rows", K.where(fc, fc.node))


def abort_markers(idx):
    """attributes of the csvpath that ErrorHandler._handle_if sets to True on the paths where the policy re-raises (and on no other):
    what records that a run was cut short.  [] when there is none."""
    fh = idx.method("ErrorHandler", "_handle_if")
    marks = None
    others = set()
    for raises in (True, False):
        it = Interp(idx, types={"self": "ErrorHandler"}, unknown_calls="residual",
                    handlers={"self._ecm.do_i_raise": lambda i, c, r, a, k, raises=raises: raises, "self._ecm.do_i_stop": lambda i, c, r, a, k: False,
                              "self._ecm.do_i_fail": lambda i, c, r, a, k: False, "self._ecm.do_i_print": lambda i, c, r, a, k: False,
                              "self._error_collector.collect_error": lambda i, c, r, a, k: None})
        ps = it.run_all(fh, args={"policy": ["raise"] if raises else [], "error": Obj("error")}, store={"self._csvpath": Obj("cp")})
        for p in ps:
            sets = {kk[3:] for k, kk, v in p.trace if k == "set" and kk.startswith("cp.") and v is True}
            if raises and p.result[0] == "raise":
                marks = sets if marks is None else (marks & sets)
            else:
                others |= sets
    return sorted((marks or set()) - others)


def abort_marker(idx, rep):
    """an abort on the scan's last line: `completed` is position-based; is there anything that records the abort?"""
    fr, ps = K.sym_result(idx, "ResultRegistrar", "completed")
    only_csvpath = len(ps) == 1 and isinstance(ps[0].result[1], Residual) and ps[0].result[1].text == "self.result.csvpath.completed"
    fc = idx.method("CsvPath", "completed")
    it = Interp(idx, types={"self": "CsvPath"}, unknown_calls="residual")
    rows = it.run_eager(fc, {"self.scanner": [Obj("sc")], "self.line_monitor": [Obj("lm")], "self.scanner.is_last(self.line_monitor.physical_line_number)": [True, False],
                             "self.stopped": [True, False], "self._errors": [[], ["E"]]})
    position_only = all(p.result == ("return", p.cfg["self.scanner.is_last(self.line_monitor.physical_line_number)"]) for p in rows)
    # does any aborting path of the run methods store a marker on the member before saving it?
    marker = False
    for m in ("collect_paths", "fast_forward_paths", "next_paths"):
        fi, paths = RM.serial_rows(idx, m)
        for p in paths:
            if p.result[0] != "raise":
                continue
            for k, kk, v in p.trace:
                if k == "set" and (kk.startswith("cp") or kk.startswith("res")) and any(w in kk for w in ("abort", "complete", "fail", "error")):
                    marker = True
    # a member that has not read a line (physical_line_number None: by-line abort before its turn, load failure) has not completed,
    # whatever its scan part: Scanner.is_last(None) on the state the productions build
    from . import scanner_model as SM
    prods = SM.productions(idx)
    fl = idx.method("Scanner", "is_last")
    rep.analysed(fl, fc)
    badn = None
    shapes = ["*", "2*", "3", "1-4", "1+3", "0+2+5", "1-2+5"]
    for sc in shapes:
        st, res = SM.parse_state(idx, prods, sc)
        if st is None:
            raise AnalysisError(f"C18.R2: scan part [{sc}] does not reduce: {res}")
        for end in (8, None):
            got = SM.call_pred(idx, "is_last", st, None, end)
            if got != ("return", False):
                badn = badn or f"scan part [{sc}], no line read yet (line number None, end line {end}): Scanner.is_last answers {got[1]!r}, so CsvPath.completed is true for a member that never read a line"
    rep.check(badn is None, "R2", f"{fl.file}::Scanner.is_last before the first line", badn or f"{len(shapes)} scan shapes x 2", K.where(fl, fl.node))
    # … or the error handler marks the csvpath when the policy re-raises, and completed answers False for a marked csvpath (completed table)
    marker = marker or bool(abort_markers(idx))
    ok = not (only_csvpath and position_only and not marker)
    rep.check(ok, "R2", f"{fr.file}::ResultRegistrar.completed abort on the scan's last line",
              "`completed` in the member manifest is csvpath.completed, which is true whenever the current line is the scan's last line; nothing records that the run was cut short, so a member "
              "aborted by an exception on its last scanned line is archived with completed: true", K.where(fr, fr.node))


MUTATORS = {"add_named_file", "add_named_files_from_dir", "set_named_files", "set_named_files_from_json", "remove_named_file",
            "add_named_paths", "add_named_paths_from_dir", "add_named_paths_from_file", "add_named_paths_from_json", "set_named_paths", "remove_named_paths",
            "remove_all_named_paths"}


def r3(idx, rep):
    # name-based call graph (over-approximation: a call `x.m()` may reach every function named m in the package)
    by_name = {}
    for fi in idx.all_funcs():
        by_name.setdefault(fi.name, []).append(fi)
    roots = [idx.method("CsvPaths", m) for m in ("collect_paths", "fast_forward_paths", "next_paths", "next_by_line", "collect_by_line", "fast_forward_by_line")]
    seen = {}
    todo = [(r, [r.qual]) for r in roots]
    hits = []
    generic = {"get", "set", "append", "add", "update", "remove", "close", "open", "write", "read", "load", "save", "next", "matches", "to_value",
               "reset", "parse", "print", "copy", "clear", "items", "keys", "values", "format", "join", "split", "strip", "find", "info", "debug",
               "warning", "error", "exists", "name", "value", "check_valid", "__init__"}
    while todo:
        fi, chain = todo.pop()
        if fi.key() in seen:
            continue
        seen[fi.key()] = chain
        for n in walk_no_nested(fi.node):
            if not isinstance(n, ast.Call):
                continue
            nm = call_name(n)
            if nm in MUTATORS:
                hits.append((fi, n, chain))
            # follow only into the managers / csvpaths / results code: the mutators live in the managers
            for tgt in by_name.get(nm, []):
                if nm in generic:
                    continue
                if tgt.file.startswith("csvpath/managers/") or tgt.file in ("csvpath/csvpaths.py",):
                    if tgt.key() not in seen:
                        todo.append((tgt, chain + [tgt.qual]))
    for fi, n, chain in hits:
        rep.fail("R3", f"{fi.file}::{fi.qual} calls {call_name(n)}", f"a named-files/named-paths mutator is reachable from a run method via {' → '.join(chain)}", K.where(fi, n))
    rep.check(not hits, "R3", "csvpath/csvpaths.py::run methods cannot reach store mutators", f"{len(seen)} functions reachable", "csvpath/csvpaths.py")
    rep.stats["callgraph_functions"] = len(seen)
    if len(seen) < 40:
        raise AnalysisError(f"C18.R3: call graph from the run methods has only {len(seen)} functions; resolution is broken")


def r5(idx, rep):
    fi = idx.method("ResultsManager", "save")
    rep.analysed(fi)

    def iso(interp, args, call):
        if args and args[0] is None:
            return False
        return interp.choose("lines is a LineSpooler", [True, False])

    it = Interp(idx, types={"self": "ResultsManager"}, unknown_calls="residual", isinstance_oracle=iso,
                domains={"self._csvpaths": [Obj("cps")], "result.lines": [Obj("spool"), None]},
                handlers={"spool.close": lambda i, c, r, a, k: i.record_call("close"),
                          "self.do_transfers_if": lambda i, c, r, a, k: i.record_call("do_transfers_if"),
                          "ResultSerializer": lambda i, c, r, a, k: Obj("rs"),
                          "rs.save_result": lambda i, c, r, a, k: i.record_call("save_result", a[0]),
                          "ResultRegistrar": lambda i, c, r, a, k: (i.record_call("ResultRegistrar()", dict(k)), Obj("rr"))[1],
                          "rr.register_complete": lambda i, c, r, a, k: i.record_call("register_complete")})
    bad = None
    for p in it.run_all(fi, args={"result": Residual("result")}):
        ev = [kk for k, kk, v in p.trace if k == "call" and kk in ("close", "save_result", "register_complete")]
        spool = p.atom("result.lines") is not None and p.atom("lines is a LineSpooler")
        want = (["close"] if spool else []) + ["save_result", "register_complete"]
        if ev != want:
            bad = bad or f"spooler present={spool}: order {ev}, documented {want}"
        rrk = [v for k, kk, v in p.trace if k == "call" and kk == "ResultRegistrar()"]
        if rrk and rrk[0].get("result") != Residual("result"):
            bad = bad or f"completion registered for {rrk[0].get('result')}"
    rep.check(bad is None, "R5", f"{fi.file}::ResultsManager.save order", bad or "", K.where(fi, fi.node))


def r6(idx, rep):
    class Proxy:
        def __init__(self, rep):
            self.rep = rep
            self.stats = rep.stats

        def __getattr__(self, n):
            return getattr(self.rep, n)

        def check(self, cond, rid, key, detail="", where=""):
            if not (key.endswith("table collect") or key.endswith("table raise") or key.endswith("table raise-last") or "records the line number" in key or "policy selection" in key or "exports line_count" in key):
                return True
            return self.rep.check(cond, "R6", key, detail, where)

    c05.r1(idx, Proxy(rep))
    c05.r6(idx, Proxy(rep))
    # whether the aborting exception reaches the caller is the 'raise' of the policy of the object that owns the handler
    c05.r2(idx, K.as_rule(rep, "R6", keep=lambda k: "policy source" in k or "do_i_raise" in k))
    # the failing function's error reaches the handler at all: every exit of Matcher.matches hands the collected errors over
    from . import matcher_model as MM
    fm, rows = MM.run_model(idx, max_components=2, with_memo=False)
    badc = None
    for row in rows:
        for aspect, ok, detail in MM.judge(row):
            if aspect == "clear-errors" and not ok:
                badc = badc or detail
    rep.check(badc is None, "R6", f"{fm.file}::Matcher.matches table clear-errors", badc or f"{len(rows)} rows", K.where(fm, fm.node))
    # … on the blank last line too (the last()s fired there run outside the expressions' own handlers)
    from . import c13
    c13.r1(idx, K.as_rule(rep, "R6", keep=lambda k: "blank-last branch" in k), "quick")
    # the handler a run method builds for a member collects into the member's result, whatever that result holds so far
    c05.collector_table(idx, rep, "R6")
    save_before_first_line(idx, rep, "R1")
    # Result.collect_error keeps every error; errors.json is written from result.errors
    fc, ps = K.sym_result(idx, "Result", "collect_error", args={"error": "E2"}, store={"self._errors": ["E1"]})
    rep.check(len(ps) == 1 and ps[0].final_store.get("self._errors") == ["E1", "E2"], "R6", f"{fc.file}::Result.collect_error appends", f"{ps[0].final_store.get('self._errors')}", K.where(fc, fc.node))


def save_before_first_line(idx, rep, rid):
    """in a breadth-first run that is aborted on its first line the members after the aborting one have not been handed a line yet: they are
    saved all the same (meta.json is written from the runtime data), so collecting the runtime data of a member in the state its
    constructor leaves (no run start time, no counts, no line seen) must not fault"""
    fi = idx.method("RuntimeDataCollector", "collect")
    rep.analysed(fi)
    st = dict(K.instance_store(idx, "CsvPath", selfkey="cp"))
    st.update({"cp.line_monitor": Obj("lm"), "cp.scanner": Obj("sc"), "lm.physical_line_number": None, "lm.physical_line_count": None, "lm.data_line_count": None,
               "lm.data_end_line_count": 9, "sc.filename": "F.csv", "cp.identity": "ID", "cp.headers": ["a"]})
    props = {f"{c.name}.{p_}" for c in idx.mro("CsvPath") for p_ in c.properties if p_ not in ("line_monitor", "headers", "identity", "scanner")}
    it = Interp(idx, types={"cls": "RuntimeDataCollector", "self": "RuntimeDataCollector", "cp": "CsvPath"}, inline_all={"RuntimeDataCollector"}, inline=props,
                unknown_calls="residual")
    ps = it.run_all(fi, args={"__pos__": [Obj("cp"), {}], "local": True}, selfkey="cls", store=st)
    bad = next((f"collecting the runtime data of a member that has not seen a line ends in {p.result} ({[t for t in p.trace if t[0] == 'raise'][-1:]})" for p in ps if p.result[0] != "return"), None)
    rep.check(bad is None and len(ps) >= 1, rid, f"{fi.file}::RuntimeDataCollector.collect works on a member that has not seen a line", bad or f"{len(ps)} paths", K.where(fi, fi.node))
