"""C13 — stop, skip, advance and last control the run as documented.

  R1 Matcher.matches        exhaustive decision table (abstract interpretation): components evaluated left to
                            right, none after stop/skip fired; skip consumed on the same line wherever it stands;
                            stop lets the line match only when it was the last component
  R2 _consider_line         exhaustive decision table: advance skips matching and is consumed only by scanned,
                            non-blank lines; stop() when the scanner says last
  R3 blank last line        _consider_line freezes, calls matches once and returns False; Matcher.matches only
                            activates last() and clears errors
  R4 last()                 Last._decide_match table; LineMonitor.is_last_line / is_last_line_and_blank tables
  R5 frozen overrides       override_frozen overriders are exactly Fail, FailAll, Last; unfreeze is re-frozen
  R6 stop reaches driver    CsvPath.next tests `stopped` after the yield/unmatched step of every iteration
  R7 skip/stop functions    Skipper._skip_me / Stopper._stop_me set their flag exactly when (no child or child is True)
"""
import ast

from sa.index import AnalysisError, unparse, walk_no_nested, call_name
from sa.absint import Interp, Obj, Residual
from sa import guards as G
from sa.flow import Must
from . import common as K
from . import matcher_model as MM
from . import consider_model as CM


def run(idx, rep, tier):
    rep.explanation = (
        "Decision tables extracted by abstract interpretation of the ASTs of Matcher.matches (1-3 components x votes "
        "{True,False,None} x control effect {none,stop,skip} x memoised votes x AND/OR), CsvPath._consider_line (blank-last, "
        "blank, includes, advance 0..2, vote, is_last, return-mode), Last._decide_match, Skipper._skip_me, Stopper._stop_me and "
        "LineMonitor.is_last_line(_and_blank), each compared row by row with the documented behaviour; plus who-may-override "
        "override_frozen, re-freeze ordering and the position of the stopped test in CsvPath.next. Decides the control "
        "structure for all inputs; does not decide 'at most once per run' of last() over arbitrary scan/file shapes.")
    rep.rule("R1", "Matcher.matches: order, no evaluation after stop/skip, skip consumed on its own line, stop only matches as last component")
    rep.rule("R2", "_consider_line: advance passes lines without matching; consumed only by scanned non-blank lines; stop() at the scan's last line")
    rep.rule("R3", "blank last line: freeze, match once, return False; matcher only activates last()")
    rep.rule("R4", "last() is true exactly on the file's or the scan's final line; child runs unfrozen then re-frozen")
    rep.rule("R5", "override_frozen overriders = {Fail, FailAll, Last}")
    rep.rule("R6", "CsvPath.next examines `stopped` after each line's yield/unmatched step and leaves the loop")
    rep.rule("R7", "skip()/stop() set their flag exactly when they have no child or the child matched True")
    r1(idx, rep, tier)
    r2_r3(idx, rep)
    r4(idx, rep)
    r5(idx, rep)
    r6(idx, rep)
    r7(idx, rep)
    # stop() in one member of a breadth-first run ends that member only: the others see every later line, the run ends when all stopped
    from . import c08
    c08.byline(idx, rep, "R6", "R6", tier, scenarios=("stops_a", "stops_b"), aspects=("schedule", "outcome"))
    # "the file's final line" is the count LineCounter took with the run's csv dialect (a different dialect counts different records)
    from . import c06
    c06.r1(idx, K.as_rule(rep, "R4", keep=lambda key: "LineCounter" in key))
    # … and it is the count of the file as it is now: the end line last() and the scan's stop compare with comes out of the line-monitor
    # cache, whose entries must not outlive a rewrite of the file (or serve another dialect's count)
    from . import c19
    c19.r2(idx, K.as_rule(rep, "R4", keep=lambda key: "_cache_name" in key or "cache entries are tied" in key))
    # which lines are blank / skipped / advanced over is the same for a member of a group as alone: CsvPaths.csvpath() hands its settings on
    c08.r2(idx, K.as_rule(rep, "R2", keep=lambda key: "builds a new member" in key))
    # `cond -> stop()/skip()/advance()` fires whenever cond holds: the when/do re-entry guard of one line must not survive into the next
    # (a guard flag that an exception leaves set silently disables the component for the rest of the run)
    K.guard_flags(idx, rep, "R7")
    from . import c06 as _c06
    _c06.reset_clears(idx, rep, "R7", classes={"Equality"})
    rep.stats["exhaustive"] = True


def r1(idx, rep, tier):
    fi, rows = MM.run_model(idx, max_components=5 if tier == "thorough" else 3, with_memo=True)
    rep.analysed(fi)
    bad = {}
    for row in rows:
        for aspect, ok, detail in MM.judge(row):
            if not ok and aspect not in bad:
                bad[aspect] = detail
    for aspect in ("order", "verdict", "skip-consumed", "clear-errors", "returns"):
        if aspect == "clear-errors":
            continue  # belongs to C05.R4
        key = f"{fi.file}::Matcher.matches table {aspect}"
        if aspect in bad:
            rep.fail("R1", key, bad[aspect], K.where(fi, fi.node))
        else:
            rep.ok("R1", key, f"{len(rows)} rows", K.where(fi, fi.node))
    rep.stats["table_rows"] = rep.stats.get("table_rows", 0) + len(rows)
    rep.sample({"rule": "R1", "rows": len(rows), "example": rows[len(rows) // 2]["path"].summary()})
    # blank last line
    fi, paths = MM.blank_last_rows(idx)
    okb = True
    detail = ""
    for p in paths:
        calls = [k[1] for k in p.trace if k[0] == "call"]
        if "component.matches" in calls or "_do_lasts" not in calls or "clear_errors" not in calls or p.result != ("return", True):
            okb = False
            detail = f"blank last line: calls {calls}, result {p.result}; documented: only _do_lasts and clear_errors, returns True"
    rep.check(okb, "R3", f"{fi.file}::Matcher.matches blank-last branch", detail, K.where(fi, fi.node))
    # stop()/skip() fired by a last() on the blank last line end that line like any other: no later component is activated
    nd = 3 if tier == "quick" else 4
    fd, drows = MM.do_lasts_rows(idx, nd)
    rep.analysed(fd)
    badd = None
    for p, activated, fired in drows:
        if p.result[0] != "return":
            badd = f"path ends in {p.result}"
            break
        halt = next((i for i, e in enumerate(fired) if e in ("stop", "skip")), None)
        want = [f"e{i}" for i in range(nd if halt is None else halt + 1)]
        if activated != want:
            badd = (f"effects fired {fired}: components activated {activated}, documented {want} (after stop()/skip() fired no later component of the line runs; "
                    "a last() whose consequence faulted has its error handled by the policy and the later last()s of the line still fire)")
            break
        wanth = [f"e{i}" for i, e in enumerate(fired) if e == "raise"]
        if p.__dict__.get("handled", []) != wanth:
            badd = f"effects fired {fired}: errors handed to {p.__dict__.get('handled', [])}, documented {wanth} (each fault goes to the expression whose last() raised it)"
            break
    rep.check(badd is None and len(drows) >= 3, "R3", f"{fd.file}::Matcher._do_lasts halts after stop/skip", badd or f"{len(drows)} paths", K.where(fd, fd.node))
    # _do_lasts activates only last() components: interpreted over a component tree
    #   E ── last()                      → activated
    #     ├─ print(…)                    → not activated, searched
    #     │    └─ last()                 → activated (nested)
    #     ├─ (last() -> print)           → the when/do is activated as a whole
    #     ├─ (yes() -> last())           → not a last()-when: searched, its right side last() is activated
    #     └─ #header                     → not activated
    fl = idx.method("Matcher", "_find_and_actvate_lasts")
    rep.analysed(fl)
    comps = {
        "L1": ("Function", "last", []), "P": ("Function", "print", ["L2"]), "L2": ("Function", "last", []),
        "W1": ("Equality", None, ["L3", "P2"]), "L3": ("Function", "last", []), "P2": ("Function", "print", []),
        "W2": ("Equality", None, ["Y", "L4"]), "Y": ("Function", "yes", []), "L4": ("Function", "last", []), "H": ("Header", "a", []),
    }
    store = {"E.children": [Obj(n) for n in ("L1", "P", "W1", "W2", "H")]}
    for n, (kind, name, kids) in comps.items():
        store[f"{n}.children"] = [Obj(k) for k in kids]
        store[f"{n}.name"] = name
        if kind == "Equality":
            store[f"{n}.op"] = "->"
            store[f"{n}.left"] = Obj(kids[0])
            store[f"{n}.right"] = Obj(kids[1])

    def iso(interp, args, call):
        o, t = args[0], args[1]
        tn = t.text if isinstance(t, Residual) else str(t)
        return isinstance(o, Obj) and o.name in comps and comps[o.name][0] == tn

    it = Interp(idx, types={"self": "Matcher"}, unknown_calls="residual", isinstance_oracle=iso,
                handlers={".matches": lambda i, c, r, a, k: i.record_call("activated", r.name)})
    ps = it.run_all(fl, args={"e": Obj("E")}, store=store)
    got = sorted(c[1] for c in ps[0].calls("activated")) if len(ps) == 1 and ps[0].result[0] == "return" else None
    want = sorted(["L1", "L2", "W1", "L4"])
    rep.check(got == want, "R3", f"{fl.file}::Matcher._find_and_actvate_lasts only last()",
              f"on the blank last line the components activated are {got}; documented {want} (every last(), a `last() -> x` as a whole, nothing else)", K.where(fl, fl.node))


def r2_r3(idx, rep):
    fi, rows = CM.rows(idx)
    rep.analysed(fi)
    bad = {}

    def flag(aspect, detail):
        bad.setdefault(aspect, detail)

    for adv, p in rows:
        f = CM.facts(adv, p)
        cfg = {k: f[k] for k in ("adv", "blank_last", "skip_blank", "empty", "includes", "is_last", "cwnm", "vote")}
        kind, val = f["result"]
        if kind != "return":
            flag("returns", f"{cfg}: ends in {kind} {val}")
            continue
        if f["blank_last"]:
            # R3: freeze, match once, return False, nothing counted
            if not (f["freeze_sets"] == [True] and f["n_matches"] == 1 and val is False and not f["scan_sets"] and not f["adv_sets"] and f["n_raise"] == 0):
                flag("blank-last", f"{cfg}: freeze stores {f['freeze_sets']}, matches called {f['n_matches']}x, returns {val!r}, scan stores {f['scan_sets']}; "
                                   "documented: freeze variables, run the matcher once so last() can fire, return no line, count nothing")
            else:
                order = [x for x in f["order"] if x in (("set", "self._freeze_path"), ("call", "matches"))]
                if order != [("set", "self._freeze_path"), ("call", "matches")]:
                    flag("blank-last", f"{cfg}: the freeze must precede the match on a blank last line; order {order}")
            continue
        if f["skip_blank"] and f["empty"]:
            if not (val is False and f["n_matches"] == 0 and not f["scan_sets"] and not f["adv_sets"] and f["n_stop"] == 0 and f["n_raise"] == 0):
                flag("blank", f"{cfg}: a blank record must pass with no effect at all (no match, no scan count, no advance consumed, no stop); "
                              f"observed matches={f['n_matches']} scan stores={f['scan_sets']} advance stores={f['adv_sets']} stop={f['n_stop']} returns {val!r}")
            continue
        if not f["includes"]:
            if not (val is False and f["n_matches"] == 0 and not f["scan_sets"] and not f["adv_sets"] and f["n_raise"] == 0):
                flag("not-included", f"{cfg}: a line outside the scan must have no effect; observed matches={f['n_matches']} scan={f['scan_sets']} advance={f['adv_sets']} returns {val!r}")
            continue
        # included, non-blank
        if f["scan_sets"] != [6]:
            flag("scan-count", f"{cfg}: scan_count stores {f['scan_sets']} (started at 5): must rise by exactly one per offered line")
        if adv > 0:
            if not (f["n_matches"] == 0 and f["adv_sets"] == [adv - 1] and f["n_raise"] == 0 and val is (True if f["cwnm"] else False)):
                flag("advance", f"{cfg}: while advancing the line must pass without matching or counting as a match and consume one advance; "
                                f"observed matches={f['n_matches']} advance stores={f['adv_sets']} raise_match_count={f['n_raise']} returns {val!r}")
        else:
            if f["n_matches"] != 1 or f["adv_sets"]:
                flag("match-once", f"{cfg}: matches called {f['n_matches']}x, advance stores {f['adv_sets']}")
            want = (f["vote"] is True) != bool(f["cwnm"])
            if val is not want:
                flag("verdict", f"{cfg}: returns {val!r}; documented (matched is True) XOR collect_when_not_matched = {want!r}")
            if f["n_raise"] != (1 if f["vote"] is True else 0):
                flag("match-count", f"{cfg}: raise_match_count_if called {f['n_raise']}x for vote {f['vote']!r}")
        if f["n_stop"] != (1 if f["is_last"] else 0):
            flag("stop-at-last", f"{cfg}: stop() called {f['n_stop']}x with scanner.is_last={f['is_last']}")
        # _current_match_count is primed before matching
        if adv == 0 and f["cmc_sets"] != [3]:
            flag("match-count-primed", f"{cfg}: _current_match_count stores {f['cmc_sets']} (match_count is 3): must be primed with match_count before matching")
    table = {
        "blank-last": "R3", "blank": "R2", "not-included": "R2", "advance": "R2", "stop-at-last": "R2", "returns": "R2",
    }
    for aspect, rid in table.items():
        key = f"{fi.file}::CsvPath._consider_line table {aspect}"
        if aspect in bad:
            rep.fail(rid, key, bad[aspect], K.where(fi, fi.node))
        else:
            rep.ok(rid, key, f"{len(rows)} rows", K.where(fi, fi.node))
    rep.stats["table_rows"] = rep.stats.get("table_rows", 0) + len(rows)
    # Advance._decide_match writes advance_count from its argument
    fa = idx.method("Advance", "_decide_match")
    rep.analysed(fa)
    w = [(unparse(t), unparse(v)) for t, v, st in __import__("sa.index", fromlist=["x"]).stores_in(fa.node) if isinstance(t, ast.Attribute) and t.attr == "advance_count"]
    rep.check(len(w) == 1 and w[0][0] == "self.matcher.csvpath.advance_count", "R2", f"{fa.file}::Advance._decide_match sets advance_count", f"stores {w}", K.where(fa, fa.node))


def r4(idx, rep):
    fi = idx.method("Last", "_decide_match")
    rep.analysed(fi)
    LAST = "self.matcher.csvpath.line_monitor.is_last_line()"
    LASTSCAN = "self.matcher.csvpath.scanner.is_last(self.matcher.csvpath.line_monitor.physical_line_number)"
    bad = None
    nrows = 0
    for nchild in (0, 1):
        def child(interp, call, recv, args, kwargs):
            interp.record_call("child.matches", dict(frozen=interp.store.get("self.matcher.csvpath.is_frozen", "unset")))
            return interp.choose("child", [True, False, None], memo=False)

        it = Interp(idx, types={"self": "Last"}, handlers={".matches": child})
        store = {"self.children": [Obj("c0")][:nchild], "self.matcher.csvpath.is_frozen": True}
        for p in it.run_eager(fi, {LAST: [True, False], LASTSCAN: [True, False], "self.matcher.csvpath.scanner": [Obj("self.matcher.csvpath.scanner"), None]}, store=store):
            p.choices = list(p.cfg.items()) + list(p.choices)
            nrows += 1
            last = p.atom(LAST)
            sc = p.atom("self.matcher.csvpath.scanner")
            lscan = (sc is not None) and p.atom(LASTSCAN) is True
            want = bool(last or lscan)
            ms = p.sets("self.match")
            got = ms[-1] if ms else None
            cc = p.calls("child.matches")
            fz = p.sets("self.matcher.csvpath.is_frozen")
            if got is not want:
                bad = bad or f"is_last_line={last} scanner.is_last={lscan}: match becomes {got!r}, documented {want!r}"
            if bool(cc) != (want and nchild == 1):
                bad = bad or f"is_last_line={last} scanner.is_last={lscan} children={nchild}: child evaluated {len(cc)}x"
            if cc:
                if cc[0][1]["frozen"] is not False or not fz or fz[-1] is not True:
                    bad = bad or f"the child of last() must run unfrozen and the path must be re-frozen afterwards: frozen at call={cc[0][1]['frozen']}, stores {fz}"
            elif fz:
                bad = bad or f"is_frozen written {fz} although last() did not fire"
    rep.check(bad is None, "R4", f"{fi.file}::Last._decide_match table", bad or f"{nrows} rows", K.where(fi, fi.node))
    rep.stats["table_rows"] = rep.stats.get("table_rows", 0) + nrows
    # LineMonitor tables over a small concrete domain
    f1 = idx.method("LineMonitor", "is_last_line")
    f2 = idx.method("LineMonitor", "is_last_line_and_blank")
    rep.analysed(f1, f2)
    bad1 = bad2 = None
    n = 0
    for end in (None, 0, 1, 2):
        for cur in (None, 0, 1, 2):
            store = {"self._physical_end_line_number": end, "self._physical_line_number": cur,
                     "self.physical_end_line_number": end, "self.physical_line_number": cur}
            it = Interp(idx, types={"self": "LineMonitor"})
            ps = it.run_all(f1, store=store)
            n += 1
            if len(ps) != 1 or ps[0].result != ("return", end == cur):
                bad1 = bad1 or f"end={end} current={cur}: {ps[0].result}, documented {end == cur}"
            for line in (None, [], ["a"], ["", ""], [""], [" "], ["  \t"]):   # (a record of one empty or white-space cell is a record, not a blank line)
                it = Interp(idx, types={"self": "LineMonitor"})
                ps = it.run_all(f2, args={"line": line}, store=store)
                n += 1
                want = (end == cur) and line is not None and len(line) == 0
                if len(ps) != 1 or ps[0].result != ("return", want):
                    bad2 = bad2 or (f"end={end} current={cur} line={line}: {ps[0].result}, documented {want} (only the empty record [] is a blank line: it fires last() and is returned "
                                    "by neither return-mode; any other record is a scanned line that exactly one return-mode returns)")
    # the scan's final line: Scanner.is_last on the state the productions build, including '+' lists in any order
    from . import scanner_model as SM
    import itertools
    prods = SM.productions(idx)
    fl = idx.method("Scanner", "is_last")
    rep.analysed(fl)
    scans = ["*", "2*", "3", "1-4", "4-1", "0-2"]
    scans += ["+".join(map(str, c)) for k in (2, 3) for c in itertools.permutations([0, 1, 3, 5], k)]
    scans += ["1-2+5", "0-1+3-4", "5+1-2", "4-6+1"]
    badl = None
    for sc in scans:
        st, res = SM.parse_state(idx, prods, sc)
        if st is None:
            badl = badl or f"[{sc}]: productions end in {res}"
            continue
        den = SM.denote(sc)
        for line in range(0, 9):
            n += 1
            want = (line == 8) if den[0] == "from" else (line == max(den[1]))
            got = SM.call_pred(idx, "is_last", st, line, 8)
            if got != ("return", want):
                badl = badl or f"scan part [{sc}]: Scanner.is_last({line}) is {got[1]!r}, documented {want} (last() and the end of the run belong to the greatest scanned line)"
    rep.check(badl is None, "R4", f"{fl.file}::Scanner.is_last scan's final line", badl or f"{len(scans)} scan parts", K.where(fl, fl.node))
    rep.check(bad1 is None, "R4", f"{f1.file}::LineMonitor.is_last_line table", bad1 or "", K.where(f1, f1.node))
    rep.check(bad2 is None, "R4", f"{f2.file}::LineMonitor.is_last_line_and_blank table", bad2 or "", K.where(f2, f2.node))
    rep.stats["table_rows"] = rep.stats.get("table_rows", 0) + n


def r5(idx, rep):
    # which match components run on a frozen path: the answer of override_frozen() as each class resolves it (own or inherited), interpreted
    fam = sorted({"Qualified"} | {c for c in idx.subclasses("Qualified") if len(idx.classes.get(c, [])) == 1})
    answers = {}
    defs = {}
    for c in fam:
        if not idx.has_method(c, "override_frozen"):
            continue
        m = idx.method(c, "override_frozen")
        defs[id(m.node)] = m
        ps = Interp(idx, types={"self": c}).run_all(m)
        answers[c] = ps[0].result[1] if len(ps) == 1 and ps[0].result[0] == "return" and isinstance(ps[0].result[1], bool) else f"undecided {[p.result for p in ps][:2]}"
    for m in defs.values():
        rep.analysed(m)
    public = {c: v for c, v in answers.items() if not c.startswith("_")}
    sub = sorted(c for c, v in public.items() if v is not False)
    rep.check(sub == ["Fail", "FailAll", "Last"], "R5", "override_frozen overriders",
              f"override_frozen answers other than False for {[(c, public[c]) for c in sub]}; documented: exactly fail(), fail_all() and last() run on a frozen path (True)", "csvpath/matching")
    for c in ("Fail", "FailAll", "Last"):
        m = idx.method(c, "override_frozen")
        rep.check(answers.get(c) is True, "R5", f"{m.file}::{c}.override_frozen returns True", f"{answers.get(c)!r}", K.where(m, m.node))
    for c in ("Qualified", "Matchable", "Function"):
        if c in answers and "override_frozen" in idx.cls(c).methods:
            m = idx.cls(c).methods["override_frozen"]
            rep.check(answers[c] is False, "R5", f"{m.file}::{c}.override_frozen base returns False", f"{answers[c]!r}", K.where(m, m.node))
    rep.check(len(public) >= 100, "R5", "override_frozen resolved for every match component class", f"only {len(public)} classes", "csvpath/matching")
    # do_frozen: True iff csvpath.is_frozen and not override_frozen()
    fd = idx.method("Qualified", "do_frozen")
    rep.analysed(fd)
    it = Interp(idx, types={"self": "Qualified"}, domains={"self.matcher.csvpath.is_frozen": [True, False], "self.override_frozen()": [True, False]})
    badd = None
    for p in it.run_all(fd):
        fz = p.atom("self.matcher.csvpath.is_frozen")
        ov = p.atom("self.override_frozen()")
        want = bool(fz) and not ov
        if p.result[0] != "return" or bool(p.result[1]) is not want:
            badd = f"is_frozen={fz} override={ov}: do_frozen returns {p.result[1]!r}, documented {want}"
    rep.check(badd is None, "R5", f"{fd.file}::Qualified.do_frozen table", badd or "", K.where(fd, fd.node))
    # stores to is_frozen / _freeze_path: a frozen path is unfrozen only in Last._decide_match and in Equality._do_when (left side
    # overrides frozen, e.g. `last() -> print()`), only around the consequence, and the state found on entry is restored on every
    # normal path (a path that was not frozen is not left frozen: later components of the same line still run)
    unfreezers = {"Last._decide_match", "Equality._do_when"}
    seen = set()
    for s in K.attr_stores(idx, {"is_frozen", K.names(idx)["frozen"]}):
        fi, v = s["fi"], s["value"]
        if fi.qual in ("CsvPath.__init__",) or (fi.name == "is_frozen"):
            continue
        own = K.owners_of(idx, fi, unfreezers)
        if own:
            seen |= own
        elif K.is_const(v, False):
            rep.fail("R5", f"{fi.file}::{fi.qual} unfreezes", "only last() (or a when/do whose left side overrides frozen) may unfreeze a frozen path", K.where(fi, s["stmt"]))
        else:
            rep.check(K.is_const(v, True), "R5", f"{fi.file}::{fi.qual} freeze store", f"stores {unparse(v)}", K.where(fi, s["stmt"]))
    rep.check(seen == unfreezers, "R5", "csvpath/matching::unfreezers", f"functions that lift the freeze: {sorted(seen)}, documented {sorted(unfreezers)}", "csvpath/matching")
    frozen_checks(idx, rep, "R5")


FROZEN_ASPECTS = ("re-freezes a frozen path", "leaves an unfrozen path unfrozen", "consequence runs unfrozen, other components see the state on entry")


def frozen_table(idx, fi):
    """initial frozen state x votes x (left overrides frozen): the consequence runs unfrozen when the left side is last()/fail(), the other
    components see the state found on entry, and that state is what the function leaves behind.  Returns ({aspect: detail of the first
    failing row}, number of paths)"""
    FZ = "self.matcher.csvpath.is_frozen"

    def iso(interp, args, call):
        return interp.choose("isinstance:" + unparse(call), [True, False])

    def vote(interp, call, recv, args, kwargs):
        interp.record_call("component.matches", (recv.name if isinstance(recv, Obj) else str(recv), interp.store.get(FZ, "unset")))
        return interp.choose("vote", [True, False, None], memo=False)

    n = 0
    bad = {}
    for init in (True, False):
        it = Interp(idx, types={"self": fi.cls}, unknown_calls="residual", isinstance_oracle=iso,
                    domains={"self.op": ["->"], "self.sentinel": [False, True], "self.matcher._AND": [True, False],
                             "self.left.override_frozen()": [True, False], "self._left_nocontrib(self.left)": [True, False],
                             "self.matcher.csvpath.line_monitor.is_last_line()": [True, False],
                             "self.matcher.csvpath.scanner": [Obj("scanner")]},
                    handlers={".matches": vote})
        # (the abstract objects are named by their store paths, so that a local alias `left = self.left` denotes the same call texts)
        paths = it.run_all(fi, store={"self.children": [Obj("c0")], "self.left": Obj("self.left"), "self.right": Obj("self.right"), FZ: init})
        for p in paths:
            n += 1
            if p.result[0] != "return":
                continue
            cfg = f"frozen on entry={init} {p.summary()['choices']}"
            final = p.final_store.get(FZ)
            if final is not init:
                if init:
                    bad.setdefault(FROZEN_ASPECTS[0], f"{cfg}: a path that is ending (frozen) is left with is_frozen={final!r}: components other than last()/fail() would run on the blank last line")
                else:
                    bad.setdefault(FROZEN_ASPECTS[1], f"{cfg}: the path is left with is_frozen={final!r} although it was not frozen on entry: every later component of the line "
                                                      "(assignments, push(), fail_and_stop(), …) becomes a no-op")
            overrides = fi.qual == "Last._decide_match" or (p.atom("self.left.override_frozen()") is True and all(v for t, v in p.choices if t.startswith("isinstance:") and t.rstrip(")").endswith("Function")))
            for who, fz in [c[1] for c in p.calls("component.matches")]:
                consequence = who in ("right", "self.right", "c0")
                want = False if (consequence and overrides) else init
                if fz is not want:
                    bad.setdefault(FROZEN_ASPECTS[2], f"{cfg}: component '{who}' is evaluated with is_frozen={fz!r}, documented {want!r}")
    return bad, n


def frozen_checks(idx, rep, rid):
    for cls, meth in (("Last", "_decide_match"), ("Equality", "_do_when")):
        fi = idx.method(cls, meth)
        rep.analysed(fi)
        bad, n = frozen_table(idx, fi)
        for a in FROZEN_ASPECTS:
            rep.check(a not in bad, rid, f"{fi.file}::{fi.qual} {a}", bad.get(a, f"{n} paths"), K.where(fi, fi.node))


def r6(idx, rep):
    fi = idx.method("CsvPath", "next")
    rep.analysed(fi)
    loops = [n for n in walk_no_nested(fi.node) if isinstance(n, ast.For) and "_next_line" in unparse(n.iter)]
    if len(loops) != 1:
        raise AnalysisError("CsvPath.next: the reader loop over self._next_line() was not found")
    lp = loops[0]
    # the last top-level statement group of the body must test self.stopped and break, unconditionally reached
    idx_stop = None
    for i, st in enumerate(lp.body):
        if isinstance(st, ast.If) and G.to_formula(st.test) == ("atom", "self.stopped") and any(isinstance(x, ast.Break) for x in st.body):
            idx_stop = i
    yield_idx = None
    for i, st in enumerate(lp.body):
        if any(isinstance(n, (ast.Yield, ast.YieldFrom)) for n in ast.walk(st)):
            yield_idx = i
    ok = idx_stop is not None and yield_idx is not None and idx_stop > yield_idx
    # nothing between may `continue` past the test
    if ok:
        for st in lp.body[:idx_stop]:
            for n in ast.walk(st):
                if isinstance(n, ast.Continue):
                    ok = False
    rep.check(ok, "R6", f"{fi.file}::CsvPath.next stopped test after yield",
              "the reader loop must test self.stopped and break after the yield/unmatched step of every iteration (no continue may bypass it)", K.where(fi, lp))
    # CsvPath.stop sets stopped True
    fs = idx.method("CsvPath", "stop")
    w = [(unparse(t), unparse(v)) for t, v, st in __import__("sa.index", fromlist=["x"]).stores_in(fs.node)]
    rep.check(w == [("self.stopped", "True")], "R6", f"{fs.file}::CsvPath.stop", f"stores {w}", K.where(fs, fs.node))


def advance_sequence(idx, rep, rid):
    """advance(n) asks for n lines each time it fires, with the value its argument has *then*: Advance._decide_match interpreted on one
    instance (state as __init__ leaves it) over a sequence of firings with argument values 2, 3, 1, '4'"""
    fi = idx.method("Advance", "_decide_match")
    rep.analysed(fi)
    vals = [2, 3, 1, "4"]
    cur = {}

    def program(it):
        out = []
        for v in vals:
            cur["v"] = v
            it.store["self.match"] = None
            it.call_function(fi, {"skip": []}, "self")
            out.append(it.store.get("self.matcher.csvpath.advance_count"))
        return out

    st = K.instance_store(idx, "Advance")
    st.update({"self.children": [Obj("arg")]})
    it = Interp(idx, types={"self": "Advance"}, unknown_calls="residual",
                handlers={"arg.to_value": lambda i, c, r, a, k: cur["v"], "self.to_value": lambda i, c, r, a, k: None, "self.default_match": lambda i, c, r, a, k: True,
                          "self._child_one": lambda i, c, r, a, k: Obj("arg")})
    ps = it.run_program(program, st)
    want = [int(v) for v in vals]
    ok = len(ps) == 1 and ps[0].result == ("return", want)
    rep.check(ok, rid, f"{fi.file}::Advance._decide_match sequence", f"argument values {vals} over four firings: advance_count becomes {[p.result for p in ps][:2]}, documented {want}", K.where(fi, fi.node))


def r7(idx, rep):
    advance_sequence(idx, rep, "R7")
    # Skipper._skip_me
    fi = idx.method("Skipper", "_skip_me")
    rep.analysed(fi)
    bad = None
    n = 0
    for nchild in (0, 1):
        def child(interp, call, recv, args, kwargs):
            return interp.choose("child", [True, False, None], memo=False)

        it = Interp(idx, types={"self": "Skipper"}, domains={"self.once": [False, True]},
                    handlers={".matches": child, "self._set_has_happened": lambda i, c, r, a, k: i.record_call("_set_has_happened")})
        for p in it.run_all(fi, store={"self.children": [Obj("c0")][:nchild]}):
            n += 1
            ch = p.atom("child", "nochild")
            want = nchild == 0 or ch is True
            sets = p.sets("self.matcher.skip")
            if bool(sets) != want or any(v is not True for v in sets):
                bad = bad or f"children={nchild} child vote={ch!r}: skip flag stores {sets}; documented: set True exactly when there is no child or it matched True"
    rep.check(bad is None, "R7", f"{fi.file}::Skipper._skip_me table", bad or f"{n} rows", K.where(fi, fi.node))
    # callers of _skip_me: under do_once()
    for cname in sorted(idx.subclasses("Skipper")):
        m = idx.cls(cname).methods.get("_decide_match")
        if not m:
            continue
        rep.analysed(m)
        calls = [c for c in walk_no_nested(m.node) if isinstance(c, ast.Call) and call_name(c) == "_skip_me"]
        okc = len(calls) == 1 and K.equiv(K.guard_of(m, calls[0]), K.formula("self.do_once()"))[0]
        rep.check(okc, "R7", f"{m.file}::{cname}._decide_match calls _skip_me under do_once()", f"{len(calls)} call(s)", K.where(m, m.node))
    # who may write matcher.skip: Skipper (True), Matcher (False resets + init)
    for s in K.attr_stores(idx, {"skip"}):
        f, v, t = s["fi"], s["value"], s["target"]
        tt = unparse(t)
        if tt not in ("self.skip", "self.matcher.skip"):
            continue
        if f.cls == "Matcher":
            rep.check(K.is_const(v, False), "R7", f"{f.file}::{f.qual} skip store", f"Matcher stores {unparse(v)} to skip", K.where(f, s["stmt"]))
        else:
            rep.check(K.owner_of(idx, f, {"Skipper._skip_me"}) is not None and K.is_const(v, True), "R7", f"{f.file}::{f.qual} skip store", f"{f.qual} stores {unparse(v)} to the skip flag", K.where(f, s["stmt"]))
    # Stopper._stop_me stop-called table (verdict part lives in C04.R2)
    fs = idx.method("Stopper", "_stop_me")
    rep.analysed(fs)
    bad = None
    for nchild in (0, 1):
        def child2(interp, call, recv, args, kwargs):
            return interp.choose("child", [True, False, None], memo=False)

        it = Interp(idx, types={"self": "Stopper"}, domains={"self.name": ["stop", "fail_and_stop", "stop_all"]},
                    handlers={".matches": child2, "self.matcher.csvpath.stop": lambda i, c, r, a, k: i.record_call("stop")})
        for p in it.run_all(fs, store={"self.children": [Obj("c0")][:nchild]}):
            ch = p.atom("child", "nochild")
            want = nchild == 0 or ch is True
            if bool(p.calls("stop")) != want:
                bad = bad or f"children={nchild} child vote={ch!r}: stop() called={bool(p.calls('stop'))}, documented {want}"
    rep.check(bad is None, "R7", f"{fs.file}::Stopper._stop_me stop table", bad or "", K.where(fs, fs.node))
