"""C02 — the scan part selects exactly the lines it denotes.

  R1 zero is a line number   TRU: from_line / to_line are never tested by truthiness in scanning/scanner.py
  R2 inclusion table          order-type + parsed-shape table of Scanner.includes
  R3 last-line table          same for Scanner.is_last
  R4 offer discipline         _consider_line decision table: counts/matches only included non-blank lines, stop() at is_last
  R5 grammar                  the PLY productions translated to Lark are LALR(1) conflict free; tokens do not overlap
"""
import ast
import re

from sa.index import AnalysisError, unparse, walk_no_nested
from sa.absint import Interp, Residual
from . import common as K
from . import scanner_model as SM
from . import consider_model as CM

LINEVARS = {"from_line", "to_line"}


def truthiness_sites(fn):
    """expressions used in a boolean context that are directly a from_line/to_line value"""
    out = []

    def is_linevar(e):
        if isinstance(e, ast.Name) and e.id in LINEVARS:
            return True
        if isinstance(e, ast.Attribute) and e.attr in LINEVARS:
            return True
        return False

    def ctx(e):
        # e is evaluated for truth
        if is_linevar(e):
            out.append(e)
        elif isinstance(e, ast.BoolOp):
            for v in e.values:
                ctx(v)
        elif isinstance(e, ast.UnaryOp) and isinstance(e.op, ast.Not):
            ctx(e.operand)

    for n in walk_no_nested(fn):
        if isinstance(n, (ast.If, ast.While, ast.IfExp)):
            ctx(n.test)
        elif isinstance(n, ast.Assert):
            ctx(n.test)
        elif isinstance(n, ast.comprehension):
            for c in n.ifs:
                ctx(c)
        elif isinstance(n, ast.BoolOp):
            # value context: `a or b` yields a when truthy — still a truthiness test of a
            for v in n.values[:-1]:
                if is_linevar(v):
                    out.append(v)
        elif isinstance(n, ast.UnaryOp) and isinstance(n.op, ast.Not) and is_linevar(n.operand):
            out.append(n.operand)
    # dedupe by position
    seen = set()
    res = []
    for e in out:
        k = (e.lineno, e.col_offset)
        if k not in seen:
            seen.add(k)
            res.append(e)
    return res


def run(idx, rep, tier):
    rep.explanation = (
        "R1: typed-truthiness lint over scanning/scanner.py (a line number 0 must not read as 'absent'). R2/R3: Scanner.includes and "
        "Scanner.is_last are interpreted (AST, never executed) on the scanner state that the yacc action ASTs produce for every scan part "
        "of the quantifier up to the stated bound, for every line 0..bound+2, and compared with the denotation ('*', 'N*', 'N', 'a-b' either "
        "order, '+' union); the functions only compare line numbers (checked), so the small domain covers every order type. R4: decision "
        "table of CsvPath._consider_line. R5: the PLY grammar (productions from the p_* docstrings) is LALR(1) conflict-free and every "
        "production has an action. Bounded: '+' lists with at most 3 operands, bounds 0..5 (6 thorough).")
    rep.rule("R1", "from_line/to_line are tested with `is None`/comparisons, never by truthiness")
    rep.rule("R2", "Scanner.includes equals the denotation of the scan part")
    rep.rule("R3", "Scanner.is_last is true exactly at the greatest denoted line (end of file for '*'/'N*')")
    rep.rule("R4", "only included, non-blank lines are counted as scanned and matched; stop() at the scan's last line")
    rep.rule("R5", "scan grammar is LALR(1) conflict-free and every production has an action")
    rep.rule("R6", "in a group run each member scans with its own line monitor and is driven on every line until it stops")

    # ---------------------------------------------------------------- R1
    rel = "csvpath/scanning/scanner.py"
    idx.file_tree(rel)
    nfun = 0
    for fi in idx.all_funcs(rel):
        nfun += 1
        rep.analysed(fi)
        sites = truthiness_sites(fi.node)
        key = f"{rel}::{fi.qual} truthiness of line bounds"
        if sites:
            rep.fail("R1", key, "; ".join(f"`{unparse(e)}` tested by truthiness at line {e.lineno} (0 is a valid line number)" for e in sites), K.where(fi, sites[0]))
        else:
            rep.ok("R1", key, "", K.where(fi, fi.node))
    rep.floor("R1", 10, "functions of scanner.py")
    # also the consumers in csvpath.py that receive from_line/to_line
    for qual in ("_line_numbers",):
        fi = idx.method("CsvPath", qual)
        rep.analysed(fi)
        sites = truthiness_sites(fi.node)
        rep.check(not sites, "R1", f"{fi.file}::{fi.qual} truthiness of line bounds", "; ".join(unparse(e) for e in sites), K.where(fi, fi.node))

    # ---------------------------------------------------------------- R2 / R3
    prods = SM.productions(idx)
    f_inc = idx.method("Scanner", "includes")
    f_last = idx.method("Scanner", "is_last")
    rep.analysed(f_inc, f_last, prods["term"][0], prods["expression"][0])
    for f in (f_inc, f_last):
        okc, what = SM.only_compares(f)
        rep.check(okc, "R2" if f is f_inc else "R3", f"{f.file}::Scanner.{f.name} compares only",
                  f"arithmetic on line numbers ({what}) invalidates the order-type argument", K.where(f, f.node))
    scans = SM.quantified_scans(6, tier)
    bad_inc = {}
    bad_last = {}
    bad_parse = {}
    rows = 0
    shapes = {}
    for s in scans:
        st, res = SM.parse_state(idx, prods, s)
        kind = shape_kind(s)
        if st is None:
            bad_parse.setdefault(kind, f"scan part [{s}]: the productions end in {res}")
            continue
        shapes[kind] = shapes.get(kind, 0) + 1
        den = SM.denote(s)
        hi = 9
        END = 8
        for line in range(0, hi + 1):
            rows += 1
            want = (line >= den[1]) if den[0] == "from" else (line in den[1])
            got = SM.call_pred(idx, "includes", st, line, END)
            if got != ("return", want):
                bad_inc.setdefault(kind, f"scan part [{s}] (state {show_state(st)}): includes({line}) is {got[1]!r}, denotation says {want}")
            if den[0] == "from":
                wl = line == END
            else:
                wl = line == max(den[1])
            gl = SM.call_pred(idx, "is_last", st, line, END)
            if gl != ("return", wl):
                bad_last.setdefault(kind, f"scan part [{s}] (state {show_state(st)}): is_last({line}) is {gl[1]!r}, documented {wl} "
                                          f"(the run must stop after the greatest denoted line{' = end of file' if den[0] == 'from' else ''})")
    for kind in sorted(set(shapes) | set(bad_parse) | set(bad_inc) | set(bad_last)):
        rep.check(kind not in bad_parse, "R2", f"csvpath/scanning/scanner.py::Scanner productions shape {kind}", bad_parse.get(kind, f"{shapes.get(kind, 0)} scan parts"), K.where(prods["expression"][0], prods["expression"][0].node))
        rep.check(kind not in bad_inc, "R2", f"csvpath/scanning/scanner.py::Scanner.includes shape {kind}", bad_inc.get(kind, f"{shapes.get(kind, 0)} scan parts x 10 lines"), K.where(f_inc, f_inc.node))
        rep.check(kind not in bad_last, "R3", f"csvpath/scanning/scanner.py::Scanner.is_last shape {kind}", bad_last.get(kind, ""), K.where(f_last, f_last.node))
    rep.stats["table_rows"] = rep.stats.get("table_rows", 0) + rows
    rep.stats["scan_parts"] = len(scans)
    rep.sample({"rule": "R2/R3", "scan": "1-2+5", "state": show_state(SM.parse_state(idx, prods, "1-2+5")[0])})
    # order types on the direct keyword interface used by callers (from/to given explicitly): the lone range, either order
    rows2 = 0
    bad = None
    for a in range(0, 4):
        for b in range(0, 4):
            if a == b:
                continue
            st = {"self.these": [], "self.all_lines": False, "self.from_line": a, "self.to_line": b}
            for line in range(0, 5):
                rows2 += 1
                want = min(a, b) <= line <= max(a, b)
                got = SM.call_pred(idx, "includes", st, line, 9)
                if got != ("return", want):
                    bad = bad or f"from_line={a} to_line={b}: includes({line}) is {got[1]!r}, expected {want}"
    rep.check(bad is None, "R2", "csvpath/scanning/scanner.py::Scanner.includes order types of a lone range", bad or f"{rows2} rows", K.where(f_inc, f_inc.node))
    rep.stats["table_rows"] += rows2

    # ---------------------------------------------------------------- R4
    fi, crow = CM.rows(idx)
    rep.analysed(fi)
    bad = {}
    for adv, p in crow:
        f = CM.facts(adv, p)
        cfg = {k: f[k] for k in ("adv", "blank_last", "skip_blank", "empty", "includes", "is_last", "vote")}
        if f["result"][0] != "return":
            bad.setdefault("returns", f"{cfg}: {f['result']}")
            continue
        val = f["result"][1]
        offered = (not f["blank_last"]) and not (f["skip_blank"] and f["empty"]) and bool(f["includes"])
        if offered:
            if f["scan_sets"] != [6]:
                bad.setdefault("scan-count", f"{cfg}: an offered line must raise scan_count by one; stores {f['scan_sets']}")
            if f["n_stop"] != (1 if f["is_last"] else 0):
                bad.setdefault("stop-at-last", f"{cfg}: stop() called {f['n_stop']}x with scanner.is_last={f['is_last']}")
            # order: includes test precedes the count, the count precedes the match
            names = [x[1] for x in f["order"]]
            if "matches" in names and "self.scan_count" in names and names.index("self.scan_count") > names.index("matches"):
                bad.setdefault("scan-count", f"{cfg}: scan_count is raised after matching; count_scans() would lag")
        else:
            if f["scan_sets"]:
                bad.setdefault("not-offered-count", f"{cfg}: a blank or not-included line was counted as scanned (stores {f['scan_sets']})")
            if f["n_matches"] and not f["blank_last"]:
                bad.setdefault("not-offered-match", f"{cfg}: a blank or not-included line was offered to the match part")
            if val is not False:
                bad.setdefault("not-offered-return", f"{cfg}: a blank or not-included line is returned ({val!r})")
            if f["blank_last"] and f["n_stop"] == 0 and False:
                pass
    for aspect in ("returns", "scan-count", "stop-at-last", "not-offered-count", "not-offered-match", "not-offered-return"):
        rep.check(aspect not in bad, "R4", f"{fi.file}::CsvPath._consider_line table {aspect}", bad.get(aspect, f"{len(crow)} rows"), K.where(fi, fi.node))
    rep.stats["table_rows"] += len(crow)

    # ---------------------------------------------------------------- R5
    r5(idx, rep, prods)
    # ---------------------------------------------------------------- R6 (shared with C08): line numbers seen by a member
    from . import c08
    c08.copies(idx, rep, "R6")
    c08.byline(idx, rep, "R6", "R6", tier, scenarios=("stops_a", "stops_b"), aspects=("schedule",))
    # line numbers are positions of CSV *records*: every reader on a run path parses with the run's dialect (a dropped quotechar splits
    # records), the up-front count that '*' / 'N*' end at advances once per record, and a cached count belongs to that very file
    from . import c06, c19
    c06.r1(idx, K.as_rule(rep, "R6"))
    c06.r5(idx, K.as_rule(rep, "R6", keep=lambda k: "LineCounter" in k))
    c19.r2(idx, K.as_rule(rep, "R6", keep=lambda k: "_cache_name" in k or "cache entries are tied" in k or "partial cache" in k))
    rep.stats["exhaustive"] = True


def shape_kind(s):
    if s == "*":
        return "all"
    if s.endswith("*"):
        return "from-N"
    if "+" not in s:
        if "-" in s:
            a, b = s.split("-")
            return "range-forward" if int(a) < int(b) else "range-reversed"
        return "single"
    parts = s.split("+")
    kinds = "".join("r" if "-" in p else "n" for p in parts)
    return f"list-{kinds}"


def show_state(st):
    if st is None:
        return None
    return {k.replace("self.", ""): v for k, v in st.items()}


def r5(idx, rep, prods):
    import lark

    toks = SM.lexer_tokens(idx)
    lines = []
    used = set()
    for head, (fi, alts) in prods.items():
        rep.analysed(fi)
        lines.append(f"{head}: " + " | ".join(" ".join(a) for a in alts))
        for a in alts:
            used |= {x for x in a if x.isupper()}
        # every production has a body that does something
        body = [s for s in fi.node.body if not (isinstance(s, ast.Expr) and isinstance(s.value, ast.Constant))]
        rep.check(len(body) > 0, "R5", f"{fi.file}::Scanner.{fi.name} has an action", "production without a semantic action", K.where(fi, fi.node))
    for t in sorted(used):
        if t not in toks:
            raise AnalysisError(f"token {t} used by the scan grammar is not defined in ScanningLexer")
        rx = re.sub(r"(?<!\\)/", r"\\/", toks[t])
        lines.append(f"{t}: /{rx}/")
    g = "start: path\n" + "\n".join(lines) + "\n%ignore /[ \\t\\n\\r]+/\n"
    try:
        lark.Lark(g, parser="lalr", start="start")
        rep.ok("R5", "csvpath/scanning/scanner.py::scan grammar LALR(1)", f"{len(lines)} rules/terminals", "csvpath/scanning/scanner.py")
    except Exception as e:  # pylint: disable=W0718
        rep.fail("R5", "csvpath/scanning/scanner.py::scan grammar LALR(1)", f"the scan grammar has a conflict or does not build: {str(e)[:300]}", "csvpath/scanning/scanner.py")
    # the start symbol and the expected shape of the two folding productions
    want = {"expression": [["expression", "PLUS", "term"], ["expression", "MINUS", "term"], ["term"]],
            "term": [["NUMBER"], ["NUMBER", "ALL_LINES"], ["ALL_LINES"]]}
    for h, w in want.items():
        got = prods.get(h, (None, None))[1]
        if got != w:
            raise AnalysisError(f"scan grammar production {h} changed to {got}: the reduction replay of scanner_model no longer applies")
    # NUMBER converts to int
    ci = idx.cls("ScanningLexer")
    tn = ci.methods.get("t_NUMBER")
    okn = tn is not None and any(isinstance(n, ast.Call) and K.call_name(n) == "int" for n in ast.walk(tn.node))
    rep.check(okn, "R5", "csvpath/scanning/scanning_lexer.py::ScanningLexer.t_NUMBER int conversion", "line numbers must be converted to int", "csvpath/scanning/scanning_lexer.py")
