#!/venv/bin/python
"""Records the reference inventory of private names (sa/private_roles.json) from /repo's current tree.
Run after a deliberate change of the reference tree (a `fix:` commit that adds or renames a private name)."""
import json
import os
import sys

sys.path.insert(0, os.path.dirname(os.path.dirname(os.path.abspath(__file__))))
os.environ["VERIF_NO_CANON"] = "1"
from sa.index import Index  # noqa: E402
from sa import canon  # noqa: E402

idx = Index()
inv, _ = canon.inventory(idx.files)
with open(canon.ROLES, "w") as fh:
    json.dump(inv, fh, indent=0, sort_keys=True)
print({k: len(v) for k, v in inv.items()})
