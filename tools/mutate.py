#!/venv/bin/python
"""Generic AST mutation sweep over the functions the checks analyse (self-test of the checkers, not part of any verdict).

For every function listed in evidence/*.json `functions_analysed`, apply simple mutation operators one at a time, keep the mutants that
still compile and still pass the 538 stable baseline tests (the interesting ones: the suite cannot see them), run every check on each
survivor in a scratch copy, and report which survivors no check reports.  Survivors that no check reports are either equivalent
mutants or gaps; they are written to selftest/mutants/UNDETECTED.json for triage.

usage: mutate.py [--max N] [--jobs 16] [--seed S] [--only file-substring]
"""
import argparse
import ast
import copy
import json
import os
import random
import shutil
import subprocess
import sys
import tempfile
from concurrent.futures import ThreadPoolExecutor

VERIF = os.path.dirname(os.path.dirname(os.path.abspath(__file__)))
REPO = "/repo"


def targets():
    out = {}
    for f in os.listdir(os.path.join(VERIF, "evidence")):
        ev = json.load(open(os.path.join(VERIF, "evidence", f)))
        for k in ev["coverage"].get("functions_analysed", []):
            file, _, qual = k.partition("::")
            out.setdefault(file, set()).add(qual)
    return out


class Mut:
    def __init__(self, desc, apply):
        self.desc = desc
        self.apply = apply


def mutations_of(fn):
    """list of (description, path-to-node, transformer)"""
    muts = []
    for node in ast.walk(fn):
        ln = getattr(node, "lineno", 0)
        if isinstance(node, ast.If) or isinstance(node, ast.While):
            muts.append((f"L{ln} negate condition `{ast.unparse(node.test)[:50]}`", node, "negate"))
        if isinstance(node, ast.Compare) and len(node.ops) == 1:
            op = type(node.ops[0])
            swaps = {ast.Lt: ast.LtE, ast.LtE: ast.Lt, ast.Gt: ast.GtE, ast.GtE: ast.Gt, ast.Eq: ast.NotEq, ast.NotEq: ast.Eq, ast.Is: ast.IsNot, ast.IsNot: ast.Is, ast.In: ast.NotIn, ast.NotIn: ast.In}
            if op in swaps:
                muts.append((f"L{ln} `{ast.unparse(node)[:50]}` op→{swaps[op].__name__}", node, ("cmp", swaps[op])))
            if op in (ast.Is, ast.IsNot) and isinstance(node.comparators[0], ast.Constant) and node.comparators[0].value is None:
                muts.append((f"L{ln} `{ast.unparse(node)[:50]}` → truthiness", node, "truthy"))
        if isinstance(node, ast.BoolOp):
            muts.append((f"L{ln} and↔or in `{ast.unparse(node)[:50]}`", node, "boolswap"))
        if isinstance(node, ast.Constant) and isinstance(node.value, bool):
            muts.append((f"L{ln} {node.value}→{not node.value}", node, "boolconst"))
        if isinstance(node, ast.Constant) and isinstance(node.value, int) and not isinstance(node.value, bool) and node.value in (0, 1, 2, -1):
            muts.append((f"L{ln} {node.value}→{node.value + 1}", node, "intconst"))
        if isinstance(node, (ast.Expr,)) and isinstance(node.value, ast.Call):
            name = ast.unparse(node.value.func)
            if "logger" not in name and "logging" not in name:
                muts.append((f"L{ln} delete call `{ast.unparse(node)[:50]}`", node, "delete"))
        if isinstance(node, ast.Assign) and len(node.targets) == 1 and isinstance(node.targets[0], ast.Attribute):
            muts.append((f"L{ln} delete store `{ast.unparse(node)[:50]}`", node, "delete"))
        if isinstance(node, (ast.Break, ast.Continue)):
            muts.append((f"L{ln} delete {type(node).__name__.lower()}", node, "delete"))
        if isinstance(node, ast.Return) and node.value is not None and isinstance(node.value, (ast.Compare, ast.BoolOp, ast.Name)):
            muts.append((f"L{ln} return not `{ast.unparse(node.value)[:40]}`", node, "retnot"))
    return muts


def apply(tree, fn, target, how):
    """mutate in place the node `target` (identified by identity in a deep copy mapping)"""
    if how == "negate":
        target.test = ast.UnaryOp(op=ast.Not(), operand=target.test)
    elif isinstance(how, tuple) and how[0] == "cmp":
        target.ops = [how[1]()]
    elif how == "truthy":
        neg = isinstance(target.ops[0], ast.Is)
        new = ast.UnaryOp(op=ast.Not(), operand=target.left) if neg else target.left
        return new
    elif how == "boolswap":
        target.op = ast.Or() if isinstance(target.op, ast.And) else ast.And()
    elif how == "boolconst":
        target.value = not target.value
    elif how == "intconst":
        target.value = target.value + 1
    elif how == "retnot":
        target.value = ast.UnaryOp(op=ast.Not(), operand=target.value)
    elif how == "delete":
        return ast.Pass()
    return None


class Replacer(ast.NodeTransformer):
    def __init__(self, target, new):
        self.target = target
        self.new = new

    def generic_visit(self, node):
        for field, old in ast.iter_fields(node):
            if isinstance(old, list):
                for i, x in enumerate(old):
                    if x is self.target:
                        old[i] = self.new
                    elif isinstance(x, ast.AST):
                        self.generic_visit(x)
            elif isinstance(old, ast.AST):
                if old is self.target:
                    setattr(node, field, self.new)
                else:
                    self.generic_visit(old)
        return node


def gen_all(only=None):
    tg = targets()
    out = []
    for file, quals in sorted(tg.items()):
        if only and only not in file:
            continue
        path = os.path.join(REPO, file)
        if not os.path.exists(path):
            continue
        src = open(path).read()
        tree = ast.parse(src)
        for node in ast.walk(tree):
            if isinstance(node, ast.ClassDef):
                for st in node.body:
                    if isinstance(st, ast.FunctionDef) and (f"{node.name}.{st.name}" in quals or any(q.startswith(f"{node.name}.{st.name}") for q in quals)):
                        for desc, target, how in mutations_of(st):
                            out.append((file, f"{node.name}.{st.name}", desc))
    return out


def make_mutant(file, qual, desc):
    """re-derive the mutant from (file, qual, desc): returns new source or None"""
    path = os.path.join(REPO, file)
    src = open(path).read()
    tree = ast.parse(src)
    cname, fname = qual.split(".", 1)
    for node in ast.walk(tree):
        if isinstance(node, ast.ClassDef) and node.name == cname:
            for st in node.body:
                if isinstance(st, ast.FunctionDef) and st.name == fname:
                    cands = mutations_of(st)
                    if not any(d == desc for d, _, _ in cands):
                        # line numbers moved since the sweep: match on the text after the line prefix (first such mutation)
                        strip = lambda x: x.split(" ", 1)[1] if x.startswith("L") else x
                        cands = [(desc if strip(d) == strip(desc) else d, t, h) for d, t, h in cands]
                    for d, target, how in cands:
                        if d == desc:
                            new = apply(tree, st, target, how)
                            if new is not None:
                                Replacer(target, new).generic_visit(tree)
                            ast.fix_missing_locations(tree)
                            try:
                                return ast.unparse(tree)
                            except Exception:  # pylint: disable=W0718
                                return None
    return None


def evaluate(m, checks, stable_ids, skip_tests=False):
    file, qual, desc = m
    src = make_mutant(file, qual, desc)
    if src is None:
        return m, "skip", {}
    try:
        compile(src, file, "exec")
    except SyntaxError:
        return m, "nocompile", {}
    tmp = tempfile.mkdtemp(prefix="verif_mut_")
    try:
        dst = os.path.join(tmp, "repo")
        shutil.copytree(REPO, dst, ignore=shutil.ignore_patterns(".git", "archive", "cache", "logs", "inputs", "__pycache__", "docs", "assets"))
        # ast.unparse drops comments/format but the mutant only needs to run
        open(os.path.join(dst, file), "w").write(src)
        os.makedirs(os.path.join(dst, "assets"), exist_ok=True)
        # tests need their assets
        for d in ("assets",):
            if os.path.isdir(os.path.join(REPO, d)):
                shutil.rmtree(os.path.join(dst, d), ignore_errors=True)
                os.symlink(os.path.join(REPO, d), os.path.join(dst, d))
        r = None if skip_tests else subprocess.run(["/venv/bin/python", "-m", "pytest", "-q", "-p", "no:cacheprovider", "--timeout=600", "-x"] + stable_ids,
                           cwd=dst, capture_output=True, text=True, env=dict(os.environ, PYTHONPATH=dst))
        if not skip_tests and "538 passed" not in r.stdout:
            return m, "killed-by-tests", {}
        res = {}
        ev = os.path.join(tmp, "ev")
        for c in checks:
            rr = subprocess.run([os.path.join(VERIF, "check"), c], capture_output=True, text=True, cwd=VERIF, env=dict(os.environ, VERIF_REPO=dst, VERIF_EVIDENCE_DIR=ev))
            res[c] = {0: "-", 1: "V", 2: "E"}.get(rr.returncode, "?")
        return m, "survivor", res
    finally:
        shutil.rmtree(tmp, ignore_errors=True)


def main():
    ap = argparse.ArgumentParser()
    ap.add_argument("--max", type=int, default=200)
    ap.add_argument("--jobs", type=int, default=16)
    ap.add_argument("--seed", type=int, default=int(os.environ.get("VERIF_SEED", "0")))
    ap.add_argument("--only")
    ap.add_argument("--recheck", help="SWEEP_<n>.json: re-run the checks on its undetected survivors only (no test run)")
    a = ap.parse_args()
    if a.recheck:
        return recheck(a)
    allm = gen_all(a.only)
    random.Random(a.seed).shuffle(allm)
    sel = allm[: a.max]
    checks = [c["property_id"] for c in json.load(open(os.path.join(VERIF, "MANIFEST.json")))["checks"]]
    stable = [l.strip() for l in open("/tmp/tools/stable_ids.txt")] if os.path.exists("/tmp/tools/stable_ids.txt") else _stable_ids()
    print(f"{len(allm)} candidate mutants, evaluating {len(sel)}")
    out = []
    with ThreadPoolExecutor(a.jobs) as ex:
        for m, status, res in ex.map(lambda mm: evaluate(mm, checks, stable), sel):
            hit = [c for c, v in res.items() if v == "V"]
            err = [c for c, v in res.items() if v == "E"]
            print(f"{status:16s} {m[0]}::{m[1]} {m[2]}  caught={','.join(hit) or '-'} err={','.join(err) or '-'}", flush=True)
            out.append(dict(file=m[0], function=m[1], mutation=m[2], status=status, caught_by=hit, analysis_errors=err))
    os.makedirs(os.path.join(VERIF, "selftest", "mutants"), exist_ok=True)
    surv = [o for o in out if o["status"] == "survivor"]
    und = [o for o in surv if not o["caught_by"] and not o["analysis_errors"]]
    json.dump(dict(seed=a.seed, evaluated=len(out), killed_by_tests=sum(1 for o in out if o["status"] == "killed-by-tests"), survivors=len(surv),
                   reported=sum(1 for o in surv if o["caught_by"]), analysis_error_only=sum(1 for o in surv if not o["caught_by"] and o["analysis_errors"]),
                   undetected=und, all=out), open(os.path.join(VERIF, "selftest", "mutants", f"SWEEP_{a.seed}.json"), "w"), indent=1)
    print(f"evaluated {len(out)}; killed by the suite {sum(1 for o in out if o['status'] == 'killed-by-tests')}; survivors {len(surv)}; "
          f"reported by a check {sum(1 for o in surv if o['caught_by'])}; undetected {len(und)}")


def recheck(a):
    path = a.recheck if os.path.exists(a.recheck) else os.path.join(VERIF, "selftest", "mutants", a.recheck)
    d = json.load(open(path))
    checks = [c["property_id"] for c in json.load(open(os.path.join(VERIF, "MANIFEST.json")))["checks"]]
    sel = [(u["file"], u["function"], u["mutation"]) for u in d["undetected"]]
    still = []
    with ThreadPoolExecutor(a.jobs) as ex:
        for m, status, res in ex.map(lambda mm: evaluate(mm, checks, [], skip_tests=True), sel):
            hit = [c for c, v in res.items() if v == "V"]
            err = [c for c, v in res.items() if v == "E"]
            print(f"{status:10s} {m[0]}::{m[1]} {m[2]}  caught={','.join(hit) or '-'} err={','.join(err) or '-'}", flush=True)
            for u in d["undetected"]:
                if (u["file"], u["function"], u["mutation"]) == m:
                    u["caught_by"], u["analysis_errors"], u["status"] = hit, err, status
            for o in d["all"]:
                if (o["file"], o["function"], o["mutation"]) == m:
                    o["caught_by"], o["analysis_errors"] = hit, err
    d["undetected"] = [u for u in d["undetected"] if not u["caught_by"] and not u["analysis_errors"] and u["status"] == "survivor"]
    surv = [o for o in d["all"] if o["status"] == "survivor"]
    d["reported"] = sum(1 for o in surv if o["caught_by"])
    d["analysis_error_only"] = sum(1 for o in surv if not o["caught_by"] and o["analysis_errors"])
    json.dump(d, open(path, "w"), indent=1)
    print(f"survivors {len(surv)}; reported by a check {d['reported']}; analysis error only {d['analysis_error_only']}; undetected {len(d['undetected'])}")


def _stable_ids():
    b = json.load(open("/root/.vp/BASELINE.json"))
    ids = []
    for s in b["stable_pass"]:
        cls, name = s.split("::")
        parts = cls.split(".")
        ids.append("/".join(parts[:-1]) + ".py::" + parts[-1] + "::" + name)
    return ids


if __name__ == "__main__":
    main()
