#!/bin/bash
# usage: verify_twin.sh <src dir with patch.diff demo.py expected.txt notes.md> <twin id>
# confirms in a scratch worktree of /repo HEAD: the demo transcript on HEAD equals expected.txt, equals the transcript with the patch, and the 538 stable tests pass with the patch.
src="$1"; tid="$2"
wt=/tmp/wt/vtwin_$tid; dd=/tmp/demo_vtwin_$tid
rm -rf "$dd"; mkdir -p "$dd/a" "$dd/b"
git -C /repo worktree add -q --detach "$wt" HEAD || exit 2
( cd "$dd/a" && PYTHONHASHSEED=0 PYTHONPATH="$wt" timeout 900 /venv/bin/python "$src/demo.py" >"$dd/head.out" 2>"$dd/head.err" ); rc_head=$?
if ! git -C "$wt" apply "$src/patch.diff" 2>/dev/null && ! (cd "$wt" && patch -p1 -s --fuzz=3 --no-backup-if-mismatch < "$src/patch.diff" && find . -name "*.orig" -delete); then echo "$tid: PATCH DOES NOT APPLY"; git -C /repo worktree remove --force "$wt"; exit 3; fi
git -C "$wt" add -A >/dev/null 2>&1; git -C "$wt" diff --cached > "$dd/applied.diff"; git -C "$wt" reset -q
( cd "$dd/b" && PYTHONHASHSEED=0 PYTHONPATH="$wt" timeout 900 /venv/bin/python "$src/demo.py" >"$dd/twin.out" 2>"$dd/twin.err" ); rc_twin=$?
same=no; cmp -s "$dd/head.out" "$dd/twin.out" && same=yes
lines=$(wc -l < "$dd/head.out")
stable=$(cd "$wt" && /venv/bin/python -m pytest -q -p no:cacheprovider --timeout=900 -x $(cat /tmp/tools/stable_ids.txt | tr '\n' ' ') 2>&1 | tail -1)
git -C /repo worktree remove --force "$wt"
echo "$tid: demo_head_rc=$rc_head demo_twin_rc=$rc_twin transcript_lines=$lines identical=$same stable='$stable'"
if [ $rc_head -eq 0 ] && [ $rc_twin -eq 0 ] && [ "$same" = yes ] && [ "$lines" -gt 20 ] && echo "$stable" | grep -q "538 passed"; then
  out=/verif/selftest/twins_agents/T$tid; mkdir -p "$out"; cp "$dd/applied.diff" "$out/patch.diff"; cp "$src/notes.md" "$out/notes.md" 2>/dev/null; cp "$src/demo.py" "$out/demo.py"
  /verif/tools/filter_diff.py "$dd/applied.diff" /verif/selftest/twins/T$tid.diff
  echo "{\"twin\": \"T$tid\", \"source\": \"independent sub-agent given only the property text and a scratch worktree\", \"verified\": {\"by\": \"tools/verify_twin.sh\", \"transcript_lines\": $lines, \"identical_to_head\": true, \"stable_suite_with_patch\": \"$stable\"}}" > "$out/meta.json"
  echo "$tid: KEPT"
else
  echo "$tid: REJECTED"
fi
[ -n "$KEEP_DD" ] || rm -rf "$dd"
