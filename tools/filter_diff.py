#!/venv/bin/python
"""usage: filter_diff.py <in.diff> <out.diff>: keeps the file sections of a git diff that touch csvpath/ (what the checks analyse)"""
import re
import sys
src = open(sys.argv[1]).read()
parts = re.split(r"(?m)^(?=diff --git )", src)
keep = [p for p in parts if p.startswith("diff --git a/csvpath/")]
open(sys.argv[2], "w").write("".join(keep))
