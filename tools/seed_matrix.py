#!/venv/bin/python
"""Runs every check against every kept seeded defect (and the clean tree) on scratch copies outside /repo and /verif.
usage: seed_matrix.py [--checks C01,C02] [--seeds C01-m1,..] [--jobs 16]
Writes seeded/MATRIX.json: seed -> {check: 'V' (violation), 'E' (analysis error), '-' (silent)}"""
import argparse
import json
import os
import shutil
import subprocess
import sys
import tempfile
from concurrent.futures import ThreadPoolExecutor

VERIF = os.path.dirname(os.path.dirname(os.path.abspath(__file__)))
REPO = "/repo"


def checks_available():
    m = json.load(open(os.path.join(VERIF, "MANIFEST.json")))
    return [c["property_id"] for c in m["checks"]]


def run_one(seed, checks):
    tmp = tempfile.mkdtemp(prefix="verif_seed_")
    try:
        dst = os.path.join(tmp, "repo")
        os.makedirs(dst)
        subprocess.run(["cp", "-r", os.path.join(REPO, "csvpath"), dst], check=True)
        subprocess.run(["cp", "-r", os.path.join(REPO, "docs"), dst], check=False)
        if seed != "CLEAN":
            patch = os.path.join(VERIF, "seeded", seed, "patch.diff")
            if seed.startswith("T") and not os.path.exists(patch):
                patch = os.path.join(VERIF, "selftest", "twins", seed + ".diff")
            r = subprocess.run(["patch", "-p1", "-s", "-d", dst, "-i", patch], capture_output=True, text=True)
            if r.returncode != 0:
                return seed, {c: "P" for c in checks}, r.stdout + r.stderr
        res = {}
        ev = os.path.join(tmp, "ev")
        for c in checks:
            env = dict(os.environ, VERIF_REPO=dst, VERIF_EVIDENCE_DIR=ev)
            r = subprocess.run([os.path.join(VERIF, "check"), c], capture_output=True, text=True, env=env, cwd=VERIF)
            res[c] = {0: "-", 1: "V", 2: "E"}.get(r.returncode, "?")
        return seed, res, ""
    finally:
        shutil.rmtree(tmp, ignore_errors=True)


def main():
    ap = argparse.ArgumentParser()
    ap.add_argument("--checks")
    ap.add_argument("--seeds")
    ap.add_argument("--jobs", type=int, default=16)
    ap.add_argument("--twins", action="store_true", help="run the behaviour-preserving twins (selftest/twins): every check must stay silent")
    a = ap.parse_args()
    checks = a.checks.split(",") if a.checks else checks_available()
    if a.twins:
        a.seeds = ",".join(sorted(f[:-5] for f in os.listdir(os.path.join(VERIF, "selftest", "twins")) if f.endswith(".diff")))
    def retired(d):
        mp = os.path.join(VERIF, "seeded", d, "meta.json")
        try:
            return "retired" in json.load(open(mp))
        except (OSError, ValueError):
            return False
    seeds = a.seeds.split(",") if a.seeds else ["CLEAN"] + sorted(d for d in os.listdir(os.path.join(VERIF, "seeded")) if os.path.isdir(os.path.join(VERIF, "seeded", d)) and not retired(d))
    out = {}
    with ThreadPoolExecutor(a.jobs) as ex:
        for seed, res, err in ex.map(lambda s: run_one(s, checks), seeds):
            out[seed] = res
            own = seed.split("-")[0]
            hit = [c for c, v in res.items() if v == "V"]
            errs = [c for c, v in res.items() if v in ("E", "P", "?")]
            print(f"{seed:8s} own={res.get(own, 'n/a')} caught_by={','.join(hit) or '-'} errors={','.join(errs) or '-'} {err[:100]}")
    if not a.checks and not a.seeds:
        json.dump(out, open(os.path.join(VERIF, "seeded", "MATRIX.json"), "w"), indent=1, sort_keys=True)
    noisy = {s: [c for c, v in r.items() if v != "-"] for s, r in out.items() if s.startswith("T") and any(v != "-" for v in r.values())}
    if noisy:
        print("FALSE ALARMS ON TWINS:", noisy)
        sys.exit(1)
    bad_clean = [c for c, v in out.get("CLEAN", {}).items() if v != "-"]
    if bad_clean:
        print("CLEAN TREE ALARMS:", bad_clean)
        sys.exit(1)


if __name__ == "__main__":
    main()
