# claims table: executed by gen_manifest.py
BASE_NOTE = ("Trusted: python ast; the frozen specification tables in the rule module (taken from docs/ and the property text); "
             "name-based receiver resolution confirmed by reading. Decides structural necessary conditions of the property, "
             "not the for-all behavioural statement itself; a green run means none of the enumerated structural ways of breaking it is present.")

claim("C04", "who-may-write + guard truth tables + abstract interpretation of verdict writers + fold-shape check",
      "Static: every store to the validity verdict is the literal False outside the initialiser/setter (monotonicity is decided for all inputs), the writer set and each writer's guard equal the documented causes (truth-table equivalence / exhaustive decision tables of Stopper._stop_me and ErrorHandler._handle_if), failed()/valid() alias table, and both run-level aggregations are conjunction folds over the members' csvpath verdict wired to the manifest keys. Does not decide that fail() is reached on the right lines.",
      BASE_NOTE)
