# claims table: executed by gen_manifest.py
BASE_NOTE = ("Trusted: python ast; the frozen specification tables in the rule module (taken from docs/ and the property text); "
             "name-based receiver resolution confirmed by reading. Decides structural necessary conditions of the property, "
             "not the for-all behavioural statement itself; a green run means none of the enumerated structural ways of breaking it is present.")

claim("C04", "who-may-write + guard truth tables + abstract interpretation of verdict writers + fold-shape check",
      "Static: every store to the validity verdict is the literal False outside the initialiser/setter (monotonicity is decided for all inputs), the writer set and each writer's guard equal the documented causes (truth-table equivalence / exhaustive decision tables of Stopper._stop_me and ErrorHandler._handle_if), failed()/valid() alias table, and both run-level aggregations are conjunction folds over the members' csvpath verdict wired to the manifest keys. Does not decide that fail() is reached on the right lines.",
      BASE_NOTE)

claim("C13", "decision tables by abstract interpretation of Matcher.matches/_consider_line/Last/Skipper/Stopper ASTs + who-may-override + ordering",
      "Static: exhaustive decision tables extracted from the ASTs of Matcher.matches (1-3 components x votes x {none,stop,skip} x memo x AND/OR), CsvPath._consider_line, Last._decide_match, Skipper._skip_me, Stopper._stop_me, Qualified.do_frozen, LineMonitor.is_last_line(_and_blank) and Scanner.is_last (on the state the yacc actions build), each compared with the documented control behaviour; override_frozen overriders, unfreeze/re-freeze pairing, and the stopped test after the yield in CsvPath.next. Decides the control structure for all inputs; not 'last() at most once per run' over arbitrary files.",
      BASE_NOTE + " The abstract component model (vote x control effect) assumes components influence Matcher.matches only through their vote, csvpath.stopped and matcher.skip.")

claim("C02", "typed-truthiness lint + abstract interpretation of the yacc action ASTs and Scanner.includes/is_last over the bounded scan-part language + LALR(1) check",
      "Static: no truthiness test on from_line/to_line (0 is a line); Scanner.includes/is_last interpreted on the scanner state produced by the yacc action ASTs for every scan part of the quantifier up to the bound (3 '+' operands, bounds 0..5/6) and compared with the denotation for lines 0..9 — the functions only compare line numbers (checked), so small integers cover all order types; _consider_line decision table (only included, non-blank lines are counted/matched; stop at the scan's last line); PLY grammar LALR(1) conflict-free. The composition of '+' chains is decided only up to the bound.",
      BASE_NOTE + " The reduction order of the PLY parser is replayed by the checker for the grammar shape it verifies (left-recursive expression/term); PLY itself is trusted.")

claim("C05", "decision tables by abstract interpretation of ErrorHandler._handle_if / do_i_* / validation-mode parsers / Expression.matches + defined-attribute check + trap-shape check",
      "Static: the full decision table of ErrorHandler._handle_if shows each effect (stop, collect, fail, print, raise) depends on its own flag only, raise last; do_i_* consult the matching override else the matching policy member; the validation-mode token parsers are tabulated over all strings of <= 2 tokens; every attribute the handler reads on the Error record is defined; Matcher.matches reaches clear_errors before every return (from the same exhaustive table as C13.R1); Expression.matches/Function.matches/Matcher._do_lasts trap Exception around every child evaluation and an erroring expression does not match unless validation-mode says match. Does not decide which inputs raise.",
      BASE_NOTE)

claim("C01", "alias->operator tables by name folding (abstract interpretation) + exhaustive decision tables of Matcher.matches/_consider_line/next + function vote/value tables",
      "Static: for every alias the factory maps to the comparison classes and every type path the *returned* operator equals docs (a computed-and-discarded comparison is seen as such); the type ladder tries numbers before text; exhaustive decision tables of Matcher.matches (vote fold, order), CsvPath._consider_line (verdict and counters) and the generator CsvPath.next (yield iff considered true, once, in order); name-only helper predicates decide every alias; Equality dispatch/when-do/equality tables; Expression error table; vote/value tables of not/and/or/yes/no/equals/in/exists/empty and string functions. Does not decide the value of every function for every argument.",
      BASE_NOTE + " Open finding F1 (lt/below/before return <=) is listed in known_findings.json.")

claim("C14", "exhaustive decision table of the assignment implementation by abstract interpretation against docs/assignment.md",
      "Static: Equality._do_assignment_new_impl with its helpers inlined is interpreted at AST level for all 256 qualifier subsets x current value {None,1,2,3} x new value {None,1,2,3,'true','false'} x line-matches x AND/OR (about 13k rows) and compared with the write/vote table of docs/assignment.md; argument wiring of _do_assignment; decision table of the onmatch look-ahead Qualified.line_matches/do_onmatch; asbool value table; Equality.matches dispatch. The values y takes on a given line are not decided.",
      BASE_NOTE)
