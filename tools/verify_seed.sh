#!/bin/bash
# usage: verify_seed.sh <src dir with patch.diff demo.py notes.md> <seed id, e.g. C04-m1> <property id>
# confirms in a scratch worktree of /repo HEAD: demo passes unmodified, fails with the patch, the 538 stable tests pass with the patch.
src="$1"; sid="$2"; pid="$3"
wt=/tmp/wt/verify_$sid; dd=/tmp/demo_verify_$sid
rm -rf "$dd"; mkdir -p "$dd"
git -C /repo worktree add -q --detach "$wt" HEAD || exit 2
[ -n "$NOENV" ] || /tmp/tools/mkenv.sh "$dd" >/dev/null
( cd "$dd" && PYTHONPATH="$wt" timeout 300 /venv/bin/python "$src/demo.py" >"$dd/head.out" 2>&1 ); rc_head=$?
rm -rf "$dd"; mkdir -p "$dd"; [ -n "$NOENV" ] || /tmp/tools/mkenv.sh "$dd" >/dev/null
if ! git -C "$wt" apply "$src/patch.diff"; then echo "$sid: PATCH DOES NOT APPLY"; git -C /repo worktree remove --force "$wt"; exit 3; fi
( cd "$dd" && PYTHONPATH="$wt" timeout 300 /venv/bin/python "$src/demo.py" >"$dd/mut.out" 2>&1 ); rc_mut=$?
/venv/bin/python -m compileall -q "$wt/csvpath" >/dev/null; rc_comp=$?
stable=$(cd "$wt" && /venv/bin/python -m pytest -q -p no:cacheprovider --timeout=900 -x $(cat /tmp/tools/stable_ids.txt | tr '\n' ' ') 2>&1 | tail -1)
git -C /repo worktree remove --force "$wt"
echo "$sid: demo_head_rc=$rc_head demo_mut_rc=$rc_mut compile_rc=$rc_comp stable='$stable'"
if [ $rc_head -eq 0 ] && [ $rc_mut -ne 0 ] && [ $rc_comp -eq 0 ] && echo "$stable" | grep -q "538 passed"; then
  out=/verif/seeded/$sid; mkdir -p "$out"; cp "$src/patch.diff" "$src/demo.py" "$out/"; cp "$src/notes.md" "$out/notes.md" 2>/dev/null
  /venv/bin/python - "$out" "$sid" "$pid" "$rc_head" "$rc_mut" "$stable" <<'P'
import json,sys,os
out,sid,pid,rh,rm,stable=sys.argv[1:7]
notes=open(os.path.join(out,'notes.md')).read() if os.path.exists(os.path.join(out,'notes.md')) else ''
json.dump({"seed":sid,"property":pid,"source":"independent sub-agent given only the property text and a scratch worktree",
 "needs_to_manifest":notes[:1500],
 "verified":{"by":"tools/verify_seed.sh in a scratch worktree of /repo HEAD","demo_on_head_rc":int(rh),"demo_with_patch_rc":int(rm),"stable_suite_with_patch":stable,
 "commands":["cd <tmp> && PYTHONPATH=<worktree> /venv/bin/python demo.py","git apply patch.diff","pytest <538 stable ids> -x"]}},open(os.path.join(out,'meta.json'),'w'),indent=1)
P
  echo "$sid: KEPT"
else
  echo "$sid: REJECTED"
fi
rm -rf "$dd"
