#!/venv/bin/python
"""regenerates MANIFEST.json from the claims table below (kept valid at all times)"""
import json
import os

HERE = os.path.dirname(os.path.dirname(os.path.abspath(__file__)))

# pid -> (technique, level text, level_note, design_ref)
CLAIMS = {}
NOT_YET = {}
ADDED = {}


def claim(pid, technique, text, note):
    CLAIMS[pid] = (technique, text, note)


exec(open(os.path.join(HERE, "tools", "claims.py")).read())

props = [json.loads(l) for l in open(os.path.join(HERE, "properties.jsonl"))]
checks = []
na = []
for p in props:
    pid = p["id"]
    if pid in CLAIMS and os.path.exists(os.path.join(HERE, "rules", pid.lower() + ".py")):
        tech, text, note = CLAIMS[pid]
        if ADDED.get(pid):
            text = text + " " + ADDED[pid]
        checks.append({
            "property_id": pid,
            "quick_cmd": f"./check {pid} --tier quick",
            "thorough_cmd": f"./check {pid} --tier thorough",
            "evidence_file": f"/verif/evidence/{pid}.json",
            "replay_cmd_template": f"./check {pid} --replay {{path}}",
            "engine": "sa",
            "level_claimed": {"category": "other", "text": text, "design_ref": f"DESIGN.md §4/{pid}"},
            "level_note": note,
            "technique": tech,
        })
    else:
        na.append({"property_id": pid, "reason": NOT_YET.get(pid, "static check not built yet in this session (see DESIGN.md §10); no claim is made")})
m = {
    "version": 1,
    "setup_cmd": "/venv/bin/python -m compileall -q sa rules tools >/dev/null && echo setup-ok",
    "hooks": {
        "guard": "CSVPATH_CSVPATH_VERIF",
        "enable": "no hooks: every check is a static analysis of /repo's source; nothing is observed at run time, so no guarded source change exists",
        "baseline_off_cmd": "cd /repo && /venv/bin/python -m pytest -ra -q -p no:cacheprovider --timeout=900 --continue-on-collection-errors",
        "source_commits": [],
        "add_only": True,
    },
    "engines": [{
        "name": "sa", "path": "/verif/sa",
        "serves_properties": [c["property_id"] for c in checks],
        "kind_free_text": "repository-specific static analysis over python ast: source index + MRO, structured path conditions with truth-table equivalence, structured must-dataflow with exception edges, decision-table extraction by abstract interpretation of function ASTs over finite domains, Lark LALR(1) grammar analysis; the analysed code is never imported or executed",
    }],
    "checks": checks,
    "not_applicable": na,
    "notes": "Static analysis only. Exit 0 = all structural obligations discharged (KNOWN-FINDING lines for open findings in known_findings.json); exit 1 = VIOLATION; exit 2 = ANALYSIS-ERROR (vanished anchor / unrecognised idiom: the analysis refuses to decide). VERIF_REPO overrides the analysed tree (used only by the self-test on scratch copies).",
}
json.dump(m, open(os.path.join(HERE, "MANIFEST.json"), "w"), indent=1)
print(f"{len(checks)} checks, {len(na)} not applicable")
