#!/bin/bash
# usage: seed_show.sh <seed id> <check id> [tier]: applies the seed to a scratch copy of /repo/csvpath and prints the check's FAIL lines
seed="$1"; chk="$2"; t=$(mktemp -d /tmp/verif_show_XXXX); mkdir -p $t/repo
cp -r /repo/csvpath /repo/docs $t/repo/ 2>/dev/null
p=/verif/seeded/$seed/patch.diff; [ -f "$p" ] || p=/verif/selftest/twins/$seed.diff
patch -p1 -s -d $t/repo -i $p || echo "PATCH FAILED"
VERIF_REPO=$t/repo VERIF_EVIDENCE_DIR=$t/ev /verif/check $chk ${3:+--tier $3} | grep -v "^OK\|^KNOWN" | cut -c1-700
rm -rf $t
