#!/venv/bin/python
"""usage: mutant_show.py <file> <Class.func> '<mutation text as in SWEEP json>' <check> : applies one sweep mutant to a scratch copy and prints the check's FAIL lines"""
import os, shutil, subprocess, sys, tempfile
sys.path.insert(0, os.path.dirname(os.path.abspath(__file__)))
import mutate
file, qual, desc, chk = sys.argv[1:5]
src = mutate.make_mutant(file, qual, desc)
assert src is not None, "mutant not found"
tmp = tempfile.mkdtemp(prefix="verif_mut_")
try:
    dst = os.path.join(tmp, "repo")
    os.makedirs(dst)
    subprocess.run(["cp", "-r", "/repo/csvpath", "/repo/docs", dst], check=False)
    open(os.path.join(dst, file), "w").write(src)
    r = subprocess.run([os.path.join(mutate.VERIF, "check"), chk], capture_output=True, text=True, cwd=mutate.VERIF, env=dict(os.environ, VERIF_REPO=dst, VERIF_EVIDENCE_DIR=os.path.join(tmp, "ev")))
    print("\n".join(l[:600] for l in r.stdout.splitlines() if not l.startswith("OK") and not l.startswith("KNOWN")))
finally:
    shutil.rmtree(tmp, ignore_errors=True)
